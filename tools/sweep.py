#!/usr/bin/env python3
"""Sensitivity sweep: for each patch (mutants/*.diff or seeded/*/patch.diff) apply it to /repo, run the check of
its property (quick budget unless --seconds), require a VIOLATION whose replay file reproduces, and revert /repo.
Usage: sweep.py [--seconds S] [--all-props] [names...]"""
import glob, json, os, subprocess, sys, time
ROOT = "/verif"
def sh(cmd):
    return subprocess.run(cmd, shell=True, stdout=subprocess.PIPE, stderr=subprocess.STDOUT, text=True)
def clean():
    assert sh("git -C /repo status --porcelain --untracked-files=no").stdout.strip() == "", "uncommitted changes in /repo"
def patches():
    out = []
    st = {}
    p = os.path.join(ROOT, "mutants", "status.json")
    if os.path.exists(p):
        st = json.load(open(p))
    for f in sorted(glob.glob(os.path.join(ROOT, "mutants", "*.diff"))):
        name = os.path.basename(f)[:-5]
        out.append((name, st.get(name, {}).get("property", name[:3]), f))
    for d in sorted(glob.glob(os.path.join(ROOT, "seeded", "*"))):
        f = os.path.join(d, "patch.diff")
        mp = os.path.join(d, "meta.json")
        if os.path.exists(f) and os.path.exists(mp):
            mm = json.load(open(mp))
            out.append((os.path.basename(d), ",".join(mm.get("check_with", [mm["property"]])), f))
    return out
def main():
    args = sys.argv[1:]
    seconds = None
    if "--seconds" in args:
        i = args.index("--seconds"); seconds = args[i + 1]; del args[i:i + 2]
    allprops = "--all-props" in args
    if allprops: args.remove("--all-props")
    clean()
    results = {}
    rp = os.path.join(ROOT, "mutants", "sweep_results.json")
    if os.path.exists(rp):
        results = json.load(open(rp))
    for name, prop, f in patches():
        if args and name not in args:
            continue
        r = sh("git -C /repo apply %s" % f)
        if r.returncode != 0:
            print("%s: patch does not apply: %s" % (name, r.stdout[:200])); continue
        try:
            props = prop.split(",")
            if allprops:
                props = ["C01","C02","C03","C04","C05","C06","C07","C08","C10","C11","C13","C14","C15"]
            res = {}
            for p in props:
                t = time.time()
                r = sh("cd %s && ./check %s --no-evidence %s" % (ROOT, p, ("--seconds " + seconds) if seconds else ""))
                viol = [l for l in r.stdout.splitlines() if l.startswith("VIOLATION")]
                rep = [l for l in r.stdout.splitlines() if "replay-reproduces=" in l]
                herr = [l for l in r.stdout.splitlines() if l.startswith("HARNESS-ERROR")]
                res[p] = {"detected": bool(viol), "violations": len(viol), "replay_ok": all("replay-reproduces=True" in l for l in rep) if rep else None,
                          "keys": [l.split("key=")[1].split()[0] for l in rep], "harness_error": herr[:1], "wall_s": round(time.time() - t, 1),
                          "rc": r.returncode}
                print("%-40s %s: detected=%s keys=%s replay_ok=%s %.0fs %s" % (name, p, bool(viol), res[p]["keys"], res[p]["replay_ok"], time.time() - t, herr[:1]))
                sys.stdout.flush()
            results[name] = {"property": prop, "results": res}
        finally:
            sh("git -C /repo checkout -- . && git -C /repo clean -fdq -- src")
        json.dump(results, open(rp, "w"), indent=1)
    clean()
main()
