#!/usr/bin/env python3
"""Builds /verif/mutants/<name>.diff from tools/mutants_def.py in a scratch worktree outside /repo and /verif,
and (with --test) runs the crate's test suite on each mutant there. The worktree is removed at the end."""
import json, os, subprocess, sys
sys.path.insert(0, os.path.dirname(os.path.abspath(__file__)))
from mutants_def import M
WT = "/tmp/wt-mutants"
OUT = "/verif/mutants"
def sh(cmd, **kw):
    return subprocess.run(cmd, shell=True, stdout=subprocess.PIPE, stderr=subprocess.STDOUT, text=True, **kw)
def main():
    test = "--test" in sys.argv
    only = [a for a in sys.argv[1:] if not a.startswith("--")]
    sh("git -C /repo worktree remove --force %s" % WT)
    r = sh("git -C /repo worktree add --detach %s HEAD" % WT)
    assert r.returncode == 0, r.stdout
    status = {}
    sp = os.path.join(OUT, "status.json")
    if os.path.exists(sp):
        status = json.load(open(sp))
    try:
        for m in M:
            if only and m["name"] not in only:
                continue
            p = os.path.join(WT, m["file"])
            s = open(p).read()
            if s.count(m["old"]) != 1:
                print("SKIP %s: pattern occurs %d times" % (m["name"], s.count(m["old"])))
                continue
            open(p, "w").write(s.replace(m["old"], m["new"]))
            d = sh("git -C %s diff" % WT).stdout
            open(os.path.join(OUT, m["name"] + ".diff"), "w").write(d)
            st = {"property": m["prop"], "file": m["file"]}
            if test:
                r = sh("cd %s && cargo test --workspace --no-fail-fast --offline 2>&1 | grep -E '^test result|panicked|error(\\[|:)' " % WT)
                passed = sum(int(l.split()[3]) for l in r.stdout.splitlines() if l.startswith("test result"))
                failed = sum(int(l.split()[5]) for l in r.stdout.splitlines() if l.startswith("test result"))
                builds = "error" not in r.stdout or passed > 0
                st.update(tests_passed=passed, tests_failed=failed, suite_ok=(failed == 0 and passed >= 184))
                print("%s: passed %d failed %d" % (m["name"], passed, failed))
            status.setdefault(m["name"], {}).update(st)
            sh("git -C %s checkout -- ." % WT)
    finally:
        sh("git -C /repo worktree remove --force %s" % WT)
        json.dump(status, open(sp, "w"), indent=1)
main()
