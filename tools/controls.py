#!/usr/bin/env python3
"""Negative controls: applies each refactors/*.diff (a change under which every property still holds) to /repo, runs
the quick tier of every claimed check and requires exit 0 without a VIOLATION line; reverts /repo afterwards.
usage: controls.py [name-prefix ...]"""
import glob, os, subprocess, sys
ROOT = "/verif"
PROPS = ["C01", "C02", "C03", "C04", "C05", "C06", "C07", "C08", "C10", "C11", "C13", "C14", "C15"]
def sh(cmd):
    return subprocess.run(cmd, shell=True, stdout=subprocess.PIPE, stderr=subprocess.STDOUT, text=True)
assert not sh("git -C /repo status --short").stdout.strip(), "uncommitted changes in /repo"
bad = 0
for d in sorted(glob.glob(os.path.join(ROOT, "refactors", "*.diff"))):
    name = os.path.basename(d)[:-5]
    if sys.argv[1:] and not any(name.startswith(a) for a in sys.argv[1:]):
        continue
    assert sh("git -C /repo apply %s" % d).returncode == 0, "does not apply: " + d
    try:
        for p in PROPS:
            r = sh("cd %s && ./check %s --tier quick" % (ROOT, p))
            alarm = r.returncode != 0 or "VIOLATION" in r.stdout
            print("%-70s %s: %s" % (name, p, "ALARM rc=%d" % r.returncode if alarm else "silent"), flush=True)
            bad += alarm
    finally:
        sh("git -C /repo checkout -- . && git -C /repo clean -fdq -- src")
sys.exit(1 if bad else 0)
