#!/usr/bin/env python3
"""install_seeded.py <delivery dir> <property> <needs...>: copies a confirmed sub-agent delivery to /verif/seeded/<name>/"""
import json, os, shutil, sys
src, prop = sys.argv[1], sys.argv[2]
needs = " ".join(sys.argv[3:])
name = os.path.basename(src.rstrip("/"))
v = json.load(open(os.path.join(src, "verify.json")))
assert v["confirmed"], "not confirmed"
dst = os.path.join("/verif/seeded", name)
os.makedirs(dst, exist_ok=True)
for f in ("patch.diff", "seeded_demo.rs", "NOTES.md"):
    shutil.copy(os.path.join(src, f), os.path.join(dst, f))
ported = os.path.join(src, "patch.ported.diff")
if os.path.exists(ported):
    # the sub-agent wrote its patch against an earlier /repo HEAD; hooks added since touch the same lines
    shutil.copy(os.path.join(src, "patch.diff"), os.path.join(dst, "patch.orig.diff"))
    shutil.copy(ported, os.path.join(dst, "patch.diff"))
meta = {
    "property": prop,
    "origin": "written by a fresh sub-agent that was given only the text of the property and its own scratch git worktree of /repo (nothing from /verif)",
    "needs_to_manifest": needs,
    "confirmed_by": "tools/verify_seeded.py in the scratch worktree: patch applies to /repo HEAD; `cargo test --workspace --no-fail-fast --offline` with the patch; `cargo test --test seeded_demo --offline` x3 with and x3 without the patch",
    "confirmation": v,
}
if os.path.exists(ported):
    meta["ported"] = "patch.diff is the same change re-applied by hand on the current /repo HEAD (a later add-only hook commit touches the same lines); patch.orig.diff is what the sub-agent delivered and what was confirmed"
if os.environ.get("CHECK_WITH"):
    meta["check_with"] = os.environ["CHECK_WITH"].split(",")
json.dump(meta, open(os.path.join(dst, "meta.json"), "w"), indent=1)
print("installed", dst)
