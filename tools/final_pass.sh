#!/bin/bash
# Regenerates every evidence file from a quick run against /repo's working tree and validates the interface files.
cd /verif || exit 2
git -C /repo status --short | grep -q . && { echo "/repo is not clean"; exit 2; }
rc=0
for p in C01 C02 C03 C04 C05 C06 C07 C08 C10 C11 C13 C14 C15; do
  ./check $p --tier quick 2>&1 | grep -v "^KNOWN" | tail -2
  [ "${PIPESTATUS[0]}" != "0" ] && rc=1
done
python3-vt tools/validate.py | tail -4 || rc=1
exit $rc
