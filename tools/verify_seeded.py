#!/usr/bin/env python3
"""Confirms a seeded change delivered by a sub-agent: in its scratch worktree, (1) the crate's whole test suite
passes with the patch, (2) the demonstration fails with the patch, (3) the demonstration passes without it.
usage: verify_seeded.py <worktree> <delivery dir>  -> writes <delivery dir>/verify.json"""
import json, os, shutil, subprocess, sys, time
wt, out = sys.argv[1], sys.argv[2]
def sh(cmd, timeout=3600):
    return subprocess.run(cmd, shell=True, stdout=subprocess.PIPE, stderr=subprocess.STDOUT, text=True, timeout=timeout)
def counts(s):
    p = sum(int(l.split()[3]) for l in s.splitlines() if l.startswith("test result"))
    f = sum(int(l.split()[5]) for l in s.splitlines() if l.startswith("test result"))
    return p, f
res = {}
demo = os.path.join(wt, "tests", "seeded_demo.rs")
sh("git -C %s checkout -- . && rm -f %s" % (wt, demo))
r = sh("git -C %s apply %s/patch.diff" % (wt, out))
res["patch_applies"] = r.returncode == 0
r = sh("cd %s && cargo test --workspace --no-fail-fast --offline 2>&1" % wt)
p, f = counts(r.stdout)
res["suite_with_patch"] = {"passed": p, "failed": f, "ok": f == 0 and p >= 184}
shutil.copy(os.path.join(out, "seeded_demo.rs"), demo)
runs = []
for i in range(3):
    r = sh("cd %s && cargo test --test seeded_demo --offline 2>&1" % wt, timeout=1800)
    runs.append(counts(r.stdout))
res["demo_with_patch"] = {"runs": runs, "fails": all(f > 0 for _, f in runs)}
sh("git -C %s apply -R %s/patch.diff" % (wt, out))
runs = []
for i in range(3):
    r = sh("cd %s && cargo test --test seeded_demo --offline 2>&1" % wt, timeout=1800)
    runs.append(counts(r.stdout))
res["demo_without_patch"] = {"runs": runs, "passes": all(f == 0 and p > 0 for p, f in runs)}
res["confirmed"] = bool(res["patch_applies"] and res["suite_with_patch"]["ok"] and res["demo_with_patch"]["fails"] and res["demo_without_patch"]["passes"])
json.dump(res, open(os.path.join(out, "verify.json"), "w"), indent=1)
print(out, json.dumps(res))
