"""Hand-written mutants: (name, property, file, old, new). Each must apply to /repo's HEAD."""
M = []
def m(name, prop, file, old, new):
    M.append(dict(name=name, prop=prop, file=file, old=old, new=new))

m("C01-a-chunk-key", "C01", "src/core/map_fil_col.rs",
  "collected.push((chunk.begin_idx + i, value));", "collected.push((i, value));")
m("C01-b-flatmap-key-swapped", "C01", "src/core/flatmap_fil_col.rs",
  ".map(|(i, value)| ((x.idx, i), value)),", ".map(|(i, value)| ((i, x.idx), value)),")
m("C02-a-keep-first-thread", "C02", "src/core/map_fil_find.rs",
  "maybe_reduce(|a, b| if b.0 < a.0 { b } else { a }, a, b);", "maybe_reduce(|a, _b| a, a, b);")
m("C02-b-chunk-index", "C02", "src/core/filtermap_fil_find.rs",
  "true => Some((chunk.begin_idx + x.0, value)),", "true => Some((x.0, value)),")
m("C03-a-maybe-reduce-drops", "C03", "src/core/utils.rs",
  "(Some(a), None) => Some(a),", "(Some(_a), None) => None,")
m("C03-b-chunk-overwrite", "C03", "src/core/map_fil_red.rs",
  "                acc = maybe_reduce(reduce, acc, x);", "                acc = x.or(acc);")
m("C04-a-inner-count-ignores-filter", "C04", "src/core/filtermap_fil_cnt.rs",
  """                                if filter(&x) {
                                    acc += 1;
                                }""", """                                let _ = filter(&x);
                                acc += 1;""")
m("C04-b-flatmap-count-overwrite", "C04", "src/core/flatmap_fil_cnt.rs",
  "count += chunk.flat_map(&map).filter(&filter).count();", "count = chunk.flat_map(&map).filter(&filter).count();")
m("C05-a-filter-order", "C05", "src/par/par_fil.rs",
  "let composed_filter = move |x: &I::Item| filter1(x) && filter(x);", "let composed_filter = move |x: &I::Item| filter(x) && filter1(x);")
m("C05-b-pred-before-filter", "C05", "src/par/par_map_fil.rs",
  "let composed = move |x: &O| filter(x) && predicate(x);", "let composed = move |x: &O| predicate(x) && filter(x);")
m("C06-a-splitvec-capacity", "C06", "src/par/collect_into/split_vec.rs",
  "Some(len) => self.reserve_maximum_concurrent_capacity(self.len() + len),", "Some(len) => self.reserve_maximum_concurrent_capacity(len),")
m("C06-b-offset-size1", "C06", "src/core/map_col.rs",
  ".map(|(idx, value)| (offset + idx, map(value)))", ".map(|(idx, value)| (idx, map(value)))")
m("C07-a-colx-size1-skip", "C07", "src/core/flatmap_fil_col_x.rs",
  "1 => iter.values().flat_map(&flat_map).filter(&filter).collect(),", "1 => iter.values().skip(1).flat_map(&flat_map).filter(&filter).collect(),")
m("C08-a-one-too-many", "C08", "src/core/runner.rs",
  """    pub fn do_spawn(&self, num_spawned: usize, has_more: HasMore) -> bool {
        match num_spawned {
            x if x >= self.max_num_threads - 1 => false,""", """    pub fn do_spawn(&self, num_spawned: usize, has_more: HasMore) -> bool {
        match num_spawned {
            x if x >= self.max_num_threads => false,""")
m("C08-b-colx-ignores-sequential", "C08", "src/par/par_map_fil.rs",
  """    fn collect_x(self) -> SplitVec<Self::Item, Recursive> {
        match self.params().is_sequential() {""", """    fn collect_x(self) -> SplitVec<Self::Item, Recursive> {
        match self.params().is_sequential() && false {""")
m("C10-a-no-skip-chunked", "C10", "src/core/map_fil_find.rs",
  """                if result.is_some() {
                    iter.skip_to_end();
                    return result;
                }""", """                if result.is_some() {
                    return result;
                }""")
m("C10-b-no-skip-size1-flatmap", "C10", "src/core/flatmap_fil_find.rs",
  """            if result.is_some() {
                iter.skip_to_end();
            }

            result""", """            result""")
m("C11-a-exact-grows", "C11", "src/core/runner.rs",
  "ResolvedChunkSize::Exact(x) => Some(x),", "ResolvedChunkSize::Exact(x) => Some(x * (1 + num_spawned_threads / 4)),")
m("C11-b-exact-is-min-unknown-len", "C11", "src/core/runner_settings/chunk_size.rs",
  "ChunkSize::Exact(x) => ResolvedChunkSize::Exact(exact_chunk_size(input_len, x.into())),", """ChunkSize::Exact(x) => match input_len {
            Some(_) => ResolvedChunkSize::Exact(exact_chunk_size(input_len, x.into())),
            None => ResolvedChunkSize::Min(x.into()),
        },""")
m("C15-c-unfix-chunk-clamp", "C15", "src/core/runner_settings/chunk_size.rs",
  "        Some(len) => chunk_size.min(len.max(1)),", "        Some(_len) => chunk_size,")
m("C13-a-merge-keeps-first-vector", "C13", "src/core/map_fil_col.rs",
  """        output.push(unsafe { ptr.add(idx).read().1 });
    }

    for vec in vectors.iter_mut() {
        unsafe { vec.set_len(0) };
    }
}

pub(crate) fn heap_sort_into_pinned_vec""", """        output.push(unsafe { ptr.add(idx).read().1 });
    }

    for vec in vectors.iter_mut().skip(1) {
        unsafe { vec.set_len(0) };
    }
}

pub(crate) fn heap_sort_into_pinned_vec""")
m("C14-a-swallow-panic", "C14", "src/core/runner.rs",
  """                vec.push(x.join().expect("failed to join the thread"));""", """                if let Ok(v) = x.join() {
                    vec.push(v);
                }""")
m("C14-b-unrepair-map-col", "C14", "src/core/map_col.rs",
  """            let collected = std::mem::ManuallyDrop::new(collected);
            let task = |c| task(&iter, &map, &collected, offset, c);
            let _num_spawned = Runner::run(params, ParTask::Collect, &iter, &task);
            let collected = std::mem::ManuallyDrop::into_inner(collected);
""", """            let task = |c| task(&iter, &map, &collected, offset, c);
            let _num_spawned = Runner::run(params, ParTask::Collect, &iter, &task);
""")
m("C15-a-min-chunk-zero-for-empty", "C15", "src/core/runner_settings/chunk_size.rs",
  """        None => chunk_size,
        Some(0) => 1,""", """        None => chunk_size,
        Some(0) => 0,""")
m("C15-b-threads-zero-for-empty", "C15", "src/core/runner.rs",
  "let max_num_threads = num_threads::calc_num_threads(input_len, params.num_threads).max(1);",
  "let max_num_threads = num_threads::calc_num_threads(input_len, params.num_threads);")
m("C15-x-floor-div-equivalent", "C15", "src/core/runner_settings/chunk_size.rs",
  "Ordering::Greater => div_ceil(len, max_num_threads),", "Ordering::Greater => len / max_num_threads,")
