"""Validates MANIFEST.json and evidence/*.json against the schemas in /root/.vp (run with python3-vt)."""
import glob
import json
import sys

import jsonschema

bad = 0
m = json.load(open("/verif/MANIFEST.json"))
try:
    jsonschema.validate(m, json.load(open("/root/.vp/MANIFEST.schema.json")))
    print("MANIFEST.json ok")
except jsonschema.ValidationError as e:
    bad += 1
    print("MANIFEST.json:", e.message)
es = json.load(open("/root/.vp/EVIDENCE.schema.json"))
for f in sorted(glob.glob("/verif/evidence/*.json")):
    try:
        jsonschema.validate(json.load(open(f)), es)
        print(f, "ok")
    except jsonschema.ValidationError as e:
        bad += 1
        print(f, ":", e.message[:300])
props = [json.loads(l)["id"] for l in open("/verif/properties.jsonl")]
claimed = [c["property_id"] for c in m.get("checks", [])]
na = [x["property_id"] for x in m.get("not_applicable", [])]
print("claimed", claimed)
print("not applicable", na)
missing = [p for p in props if p not in claimed and p not in na]
if missing:
    bad += 1
    print("neither claimed nor not applicable:", missing)
sys.exit(1 if bad else 0)
