"""Self-validation of the simulator: determinism proof and mutant sensitivity sweep."""
import json
import os
import shutil
import subprocess
import sys
import time

ROOT = os.path.dirname(os.path.abspath(__file__))
PROPS = ["C01", "C02", "C03", "C04", "C05", "C06", "C07", "C08", "C10", "C11", "C13", "C14", "C15"]


def determinism(a):
    """Every seed is run three times, in different processes and with different process counts (16, 16, 3);
    the hashes of the complete event logs (events and decisions) must agree pairwise."""
    import importlib.machinery
    import importlib.util
    loader = importlib.machinery.SourceFileLoader("check_mod", os.path.join(ROOT, "check"))
    spec = importlib.util.spec_from_loader("check_mod", loader)
    chk = importlib.util.module_from_spec(spec)
    loader.exec_module(chk)
    import props
    chk.build()
    # the reference model against an independent evaluation with boxed std::iter adaptors
    p = chk.psim("selftest-reference", "--count", "1500")
    print(p.stdout.strip())
    if p.returncode != 0:
        return 2
    n = a.seeds or 2000
    per = max(16, n // len(PROPS))
    total = 0
    bad = 0
    t0 = time.time()
    for p in PROPS:
        base = (a.seed * 1000003 + props.offset(p)) % (1 << 40)
        runs = []
        for jobs in (16, 16, 3):
            count = (per + jobs - 1) // jobs
            recs, crashes = chk.run_children(p, base, jobs, count, 600, 0, ["--max-violations", "1000000"])
            if crashes:
                print("HARNESS-ERROR: child died during the determinism proof: %s" % crashes[0])
                return 2
            runs.append({r["seed"]: (r["hash"], r["verdict"], r["steps"]) for r in recs})
        common = set(runs[0]) & set(runs[1]) & set(runs[2])
        mism = [s for s in common if not (runs[0][s] == runs[1][s] == runs[2][s])]
        total += len(common)
        bad += len(mism)
        print("%s: %d seeds x 3 runs (16, 16 and 3 processes): %d mismatches" % (p, len(common), len(mism)))
        for s in mism[:3]:
            print("   seed %s: %s / %s / %s" % (s, runs[0][s], runs[1][s], runs[2][s]))
    print("determinism: %d seeds, %d mismatches, %.1fs" % (total, bad, time.time() - t0))
    if bad:
        print("HARNESS-ERROR: the simulator is not deterministic")
        return 2
    return 0


if __name__ == "__main__":
    pass
