"""Per-property plans of the simulation driver: budgets, phases, what counts as non-trivial."""

QUICK_S = 20.0
THOROUGH_S = 420.0

COMMON_RULE = (
    "each evaluation is one simulated execution of one generated scenario (source kind x input x chain of 0..3 "
    "transformations x Params and where they are set x terminal x scheduling policy x available-parallelism knob), "
    "all derived from one seed; real orx-parallel code on real threads, every interleaving decision taken by the seeded "
    "token scheduler. A run is non-trivial when at least two worker threads made progress and at least one scheduling "
    "decision had more than one runnable thread; two runs are distinct when the sequence (thread slot, closure, element) "
    "of all closure entries and worker begin/end events differs (hash)."
)

COMMON_ASSUMPTIONS = [
    "interleavings are explored at the granularity of yield points: user closures, Clone/Drop of the item type, the five decision points of the spawn loop, worker begin/end; pre-emption inside the dependencies' atomics is not explored by this engine",
    "the calling thread is held at BeforeJoin until every worker has exited, so the cross-thread fold on the caller never overlaps running workers",
    "sampling: a clean batch is evidence, not proof",
    "HashSet/HashMap sources excluded (RandomState breaks replay)",
]

TEXT = {
    "C01": "oracle: returned sequence (ids and values, in order) equals the reference std-iter evaluation",
    "C02": "oracle: find/first/any/all/*_with_index equal the first match in source order of the reference, with the source position for *_with_index",
    "C03": "oracle: reduce/fold/sum equal the reference fold including an exactly-once witness (count, sum and xor of a 64-bit hash of leaf ids); min/max(_by(_key)) return an extremal existing element",
    "C04": "oracle: count equals the reference; multiset of for_each body arguments equals the reference multiset",
    "C05": "oracle: multiset of (stage, argument) closure calls equals the sequential one (full-visit terminals) or has multiplicity <= 1 (short-circuit); by-value source yields every element once, feeds it once, is never entered re-entrantly",
    "C06": "oracle: collect_into result = previous contents (same ids, same positions, neither cloned nor dropped) ++ reference collect_vec",
    "C07": "oracle: multiset of ids returned by collect_x equals the reference",
    "C08": "oracle: workers per runner frame <= n, live gauge <= n, distinct threads per closure <= n; Max(1): no runner frame, everything on the calling thread",
    "C10": "oracle: termination within a step budget on unbounded sources; zero new pulls after the finder has exited; bounded work per thread after a match; sequential clause",
    "C11": "oracle: chunk handed to every worker == c; pulls of every worker are exactly c long except the one reaching the end; aligned blocks are processed by one thread",
    "C13": "oracle: every token ever created is dropped exactly once, no invalid drop",
    "C14": "oracle: a fired injected panic surfaces as a panic of the call; no double drop, no drop of uninitialised memory, no hang, no abort",
    "C15": "oracle: no panic and the reference result for every (len, num_threads, chunk) configuration under seeded schedules",
}


def offset(prop):
    return int(prop[1:]) * 7919


def plan(prop, tier):
    seconds = QUICK_S if tier == "quick" else THOROUGH_S
    phases = [{"name": "seeded-search", "share": 1.0, "sample_every": 997}]
    if prop == "C14":
        # half of the budget walks through the complete fault-site list of small scenarios (256 seeds per scenario)
        phases = [
            {"name": "seeded-search", "share": 0.5, "sample_every": 997},
            {"name": "fault-site-enumeration", "share": 0.5, "sample_every": 997, "args": ["--gen", "C14enum"], "seed_offset": 1 << 30},
        ]
    if prop == "C15":
        # the one fixed scenario of known finding huge-chunk/iterator-source (known_findings.json)
        phases.append({"name": "known-finding-probe", "share": 0.0, "count": 1, "sample_every": 1, "jobs": 1, "args": ["--gen", "C15probe"], "seed_offset": 1 << 28})
    if prop == "C15" and tier == "thorough":
        phases.append({"name": "sampled-length-2^20+3", "share": 0.0, "count": 2, "sample_every": 1, "args": ["--gen", "C15huge"], "seed_offset": 1 << 29})
    if prop in ("C13", "C14"):
        # the same simulator interpreted by Miri: the schedule is still decided by the token scheduler (one
        # runnable thread at a time), Miri adds an exact oracle for undefined behaviour (reads of uninitialised
        # memory, double free, use after free) and, for C13, for leaks of any allocation
        per_child = 5 if tier == "quick" else 45
        phases.append({"name": "miri-interpreted", "share": 0.0, "count": per_child, "sample_every": 7,
                       "args": ["--gen", prop + "miri"], "seed_offset": 1 << 31,
                       "miriflags": "-Zmiri-ignore-leaks" if prop == "C14" else ""})
    return {
        "seconds": seconds,
        "phases": phases,
        "rule": COMMON_RULE + " " + TEXT.get(prop, ""),
        "assumptions": COMMON_ASSUMPTIONS,
        "minimise_runs": 300 if tier == "quick" else 600,
        "minimise_seconds": 40 if tier == "quick" else 120,
    }


def expected_probes(prop):
    base = ["worker_came_back_empty", "late_worker_pulled_chunk0", "spawn_after_lag_period", "min_chunk_grew", "eager_run_at_construction",
            "source_lock_contended", "parked_inside_source_next", "parked_between_claim_and_pull", "bag_grew_during_run"]
    if prop in ("C02", "C10"):
        base += ["two_threads_matched", "later_match_published_first"]
    if prop == "C14":
        base += ["fault_fired", "panic_while_others_mid_chunk", "later_element_processed_before_panic", "others_kept_working_after_panic"]
    if prop in ("C11",):
        base.remove("min_chunk_grew")
    if prop not in ("C01", "C05", "C06", "C13", "C14", "C15"):
        base.remove("bag_grew_during_run")
    if prop in ("C08",):
        base += []
    return base


def fault_summary(prop, records):
    out = {
        "stalled_worker (starve policy)": sum(1 for r in records if r["policy"].startswith("starve")),
        "spawner_runs_ahead (spawnerfirst)": sum(1 for r in records if r["policy"] == "spawnerfirst"),
        "spawner_delayed (spawnerlast)": sum(1 for r in records if r["policy"] == "spawnerlast"),
        "closure_panic_fired": sum(r.get("fired", 0) for r in records),
        "runs_ending_in_panic": sum(1 for r in records if r.get("panicked")),
        "token_holder_set_aside (blocked in an OS primitive outside the seams; 0 expected on the pinned tree)": sum(r.get("rescues", 0) for r in records),
    }
    return out
