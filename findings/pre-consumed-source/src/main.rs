use orx_parallel::*;
use orx_concurrent_iter::*;
fn main() {
    // partially consumed concurrent iterators as sources
    let v: Vec<usize> = (0..10).collect();
    let ci = v.clone().into_con_iter();
    let _ = ci.next(); let _ = ci.next(); let _ = ci.next();
    let r = std::panic::catch_unwind(|| ci.into_par().num_threads(2).chunk_size(1).map(|x| x * 10).collect_vec());
    println!("vec, consumed 3, map collect_vec: {:?}", r.as_ref().map_err(|_| "PANIC"));
    let ci = v.clone().into_con_iter();
    let _ = ci.next(); let _ = ci.next(); let _ = ci.next();
    let r = std::panic::catch_unwind(|| ci.into_par().num_threads(2).chunk_size(1).filter(|x| x % 2 == 0).collect_vec());
    println!("vec, consumed 3, filter collect_vec: {:?}", r.as_ref().map_err(|_| "PANIC"));
    let ci = v.clone().into_con_iter();
    let _ = ci.next(); let _ = ci.next(); let _ = ci.next();
    let r = std::panic::catch_unwind(|| ci.into_par().num_threads(2).chunk_size(1).find_with_index(|x| *x == 5));
    println!("vec, consumed 3, find_with_index(5): {:?}", r.as_ref().map_err(|_| "PANIC"));
    let ci = v.as_slice().into_con_iter();
    let _ = ci.next(); let _ = ci.next(); let _ = ci.next();
    let r = std::panic::catch_unwind(|| ci.into_par().num_threads(2).chunk_size(2).map(|x| x * 10).collect_vec());
    println!("slice, consumed 3, map collect_vec: {:?}", r.as_ref().map_err(|_| "PANIC"));
    let ci = (0..10usize).con_iter();
    let _ = ci.next(); let _ = ci.next(); let _ = ci.next();
    let r = std::panic::catch_unwind(|| ci.into_par().num_threads(2).chunk_size(2).map(|x| x * 10).collect_vec());
    println!("range, consumed 3, map collect_vec: {:?}", r.as_ref().map_err(|_| "PANIC"));
    let ci = (0..10usize).filter(|_| true).into_con_iter();
    let _ = ci.next(); let _ = ci.next(); let _ = ci.next();
    let r = std::panic::catch_unwind(|| ci.into_par().num_threads(2).chunk_size(2).map(|x| x * 10).collect_vec());
    println!("iter, consumed 3, map collect_vec: {:?}", r.as_ref().map_err(|_| "PANIC"));
    let ci = (0..10usize).map(|x| x).into_con_iter();
    let _ = ci.next(); let _ = ci.next(); let _ = ci.next();
    let r = std::panic::catch_unwind(|| ci.into_par().num_threads(1).map(|x| x * 10).collect_vec());
    println!("iter, consumed 3, sequential: {:?}", r.as_ref().map_err(|_| "PANIC"));
}
