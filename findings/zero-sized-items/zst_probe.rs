use orx_parallel::*;
use orx_split_vec::{PinnedVec, SplitVec};
fn t(name: &str, f: impl FnOnce() -> bool + std::panic::UnwindSafe) {
    let r = std::panic::catch_unwind(f);
    println!("RESULT {name}: {}", match r { Ok(true) => "ok", Ok(false) => "WRONG", Err(_) => "PANIC" });
}
#[test]
fn zst_probe() {
    std::panic::set_hook(Box::new(|_| {}));
    for n in [0usize, 1, 7, 1000] {
        for nt in [1usize, 4] {
            let cs = 3usize;
            let v: Vec<u32> = (0..n as u32).collect();
            let w = v.clone();
            t(&format!("map.collect_vec n={n} nt={nt}"), move || w.par().num_threads(nt).chunk_size(cs).map(|_| ()).collect_vec().len() == n);
            let w = v.clone();
            t(&format!("map.collect<SplitVec> n={n} nt={nt}"), move || { let b: SplitVec<()> = w.par().num_threads(nt).chunk_size(cs).map(|_| ()).collect(); b.len() == n });
            let w = v.clone();
            t(&format!("filter.map.collect<SplitVec> n={n} nt={nt}"), move || { let b: SplitVec<()> = w.par().num_threads(nt).chunk_size(cs).filter(|x| **x % 3 != 0).map(|_| ()).collect(); b.len() == w.iter().filter(|x| **x % 3 != 0).count() });
            let w = v.clone();
            t(&format!("filter.map.collect_vec n={n} nt={nt}"), move || { let b = w.par().num_threads(nt).chunk_size(cs).filter(|x| **x % 3 != 0).map(|_| ()).collect_vec(); b.len() == w.iter().filter(|x| **x % 3 != 0).count() });
            let w = v.clone();
            t(&format!("flat_map.collect_vec n={n} nt={nt}"), move || w.par().num_threads(nt).chunk_size(cs).flat_map(|_| vec![(), ()]).collect_vec().len() == 2 * n);
            let w = v.clone();
            t(&format!("map.collect_into(vec) n={n} nt={nt}"), move || w.par().num_threads(nt).chunk_size(cs).map(|_| ()).collect_into(vec![(), ()]).len() == n + 2);
            let w = v.clone();
            t(&format!("iter.map.collect_vec n={n} nt={nt}"), move || w.into_iter().filter(|_| true).par().num_threads(nt).chunk_size(cs).map(|_| ()).collect_vec().len() == n);
            let w = v.clone();
            t(&format!("map.collect_x n={n} nt={nt}"), move || w.par().num_threads(nt).chunk_size(cs).map(|_| ()).collect_x().into_iter().count() == n);
        }
    }
}
