//! E1: token-passing scheduler over the real `std::thread::scope` threads of orx-parallel.
//!
//! Exactly one registered thread ("slot") holds the token and runs; all the others are parked on their own
//! condition variable. At every yield point the running thread logs an event, asks the policy (or the replay
//! list) which runnable slot goes next, hands the token over and parks. The only inputs to a run are the
//! `Cfg` (policy, schedule seed, replay list) and the code under test.

use crate::rng::Rng;
use orx_parallel::verif::{self, Hooks, RunInfo, SpawnerPoint};
use std::cell::Cell;
use std::sync::atomic::{AtomicU8, Ordering};
use std::sync::{Condvar, Mutex, MutexGuard, OnceLock};
use std::time::Duration;

pub const NO_SLOT: usize = usize::MAX;
pub const MAX_SLOTS: usize = 160;

thread_local! {
    static SLOT: Cell<usize> = const { Cell::new(NO_SLOT) };
}

pub const MODE_OFF: u8 = 0;
pub const MODE_REF: u8 = 1;
pub const MODE_SIM: u8 = 2;
/// closures log (under a lock) but never park: used under Miri (E2), where Miri's scheduler decides.
pub const MODE_FREE: u8 = 3;
static MODE: AtomicU8 = AtomicU8::new(MODE_OFF);

pub fn mode() -> u8 {
    MODE.load(Ordering::SeqCst)
}
pub fn set_mode(m: u8) {
    MODE.store(m, Ordering::SeqCst)
}

#[derive(Clone, Copy, PartialEq, Eq, Debug, PartialOrd, Ord, Hash)]
#[repr(u8)]
pub enum Kind {
    RunBegin = 0,
    RunEnd = 1,
    Sp = 2,
    WorkerReg = 3,
    WorkerEnd = 4,
    /// closure entry: stage, a = argument id, b = second argument id (binary operators) or 0
    Call = 5,
    /// log-only: closure result: stage, a = argument id, b = result code
    Ret = 6,
    /// log-only: source iterator `next`: a = id yielded (0 = None), b = position
    SrcNext = 7,
    /// `next` of the iterator returned by a flat_map closure: stage, a = parent id, b = ordinal (u64::MAX = end)
    Inner = 8,
    Clone = 9,
    Drop = 10,
    /// an injected panic fires: stage, a = argument id
    Panic = 11,
    /// yield point inside a dependency (vendored copy with hooks): stage = site, a, b = site specific
    /// (claim: a = first position, b = number of positions claimed)
    Dep = 12,
}

/// `Sp` events with these stages mark a task that an already registered thread runs itself (a = chunk size)
pub const SP_INLINE_BEGIN: u16 = 100;
pub const SP_INLINE_END: u16 = 101;
pub const DEP_CLAIM: u16 = 1;
pub const DEP_SPIN: u16 = 2;
pub const DEP_SKIP: u16 = 3;
pub const DEP_LEN: u16 = 4;
pub const DEP_BAG_SPIN: u16 = 12;
pub const DEP_BAG_GROW: u16 = 13;

#[derive(Clone, Copy, Debug, PartialEq, Eq)]
pub struct Event {
    pub slot: u16,
    pub kind: Kind,
    pub stage: u16,
    pub a: u64,
    pub b: u64,
}

#[derive(Clone, Copy, Debug, PartialEq, Eq)]
pub enum Policy {
    Uniform,
    /// stay on the current slot with the given probability (percent)
    Sticky(u8),
    /// random priorities with d priority change points
    Pct(u8),
    SpawnerFirst,
    SpawnerLast,
    NewestFirst,
    /// the given worker ordinal (0 = first spawned worker of each frame; 255 = the spawner) runs only when nothing else can
    Starve(u8),
    /// "progress, then late workers first": the spawner runs until it reaches its first lag, then the workers run
    /// for the given number of steps (so that the spawner sees progress and hands grown chunks to later workers),
    /// then the spawner continues, and from then on the most recently spawned runnable worker goes first
    GrowLate(u8),
}

impl Policy {
    pub fn encode(&self) -> String {
        match self {
            Policy::Uniform => "uniform".into(),
            Policy::Sticky(p) => format!("sticky{}", p),
            Policy::Pct(d) => format!("pct{}", d),
            Policy::SpawnerFirst => "spawnerfirst".into(),
            Policy::SpawnerLast => "spawnerlast".into(),
            Policy::NewestFirst => "newestfirst".into(),
            Policy::Starve(k) => format!("starve{}", k),
            Policy::GrowLate(k) => format!("growlate{}", k),
        }
    }
    pub fn decode(s: &str) -> Option<Policy> {
        Some(match s {
            "uniform" => Policy::Uniform,
            "spawnerfirst" => Policy::SpawnerFirst,
            "spawnerlast" => Policy::SpawnerLast,
            "newestfirst" => Policy::NewestFirst,
            _ => {
                if let Some(x) = s.strip_prefix("sticky") {
                    Policy::Sticky(x.parse().ok()?)
                } else if let Some(x) = s.strip_prefix("pct") {
                    Policy::Pct(x.parse().ok()?)
                } else if let Some(x) = s.strip_prefix("starve") {
                    Policy::Starve(x.parse().ok()?)
                } else if let Some(x) = s.strip_prefix("growlate") {
                    Policy::GrowLate(x.parse().ok()?)
                } else {
                    return None;
                }
            }
        })
    }
    /// fair = every runnable slot is eventually scheduled
    pub fn is_fair(&self) -> bool {
        true
    }
}

#[derive(Clone, Debug)]
pub struct Cfg {
    pub policy: Policy,
    /// probability (percent) with which the policy is overruled by a uniform choice
    pub noise: u8,
    pub sched_seed: u64,
    pub budget: u64,
    pub avail_par: Option<usize>,
    pub skip_lag: bool,
    /// replay list: one slot per decision with more than one runnable slot
    pub replay: Option<Vec<u16>>,
    /// when replaying a list edited by the minimiser, a decision naming a non-runnable slot falls back to
    /// "stay, else lowest" instead of being an error
    pub tolerant_replay: bool,
    pub est_steps: u64,
    /// starve release: after this many consecutive steps of other slots the starved slot becomes eligible again
    pub starve_release: u64,
    /// closure-level events are processed only every 2^quiet-th time
    pub quiet: u8,
}

impl Default for Cfg {
    fn default() -> Self {
        Cfg {
            policy: Policy::Uniform,
            noise: 0,
            sched_seed: 0,
            budget: 1_000_000,
            avail_par: None,
            skip_lag: true,
            replay: None,
            tolerant_replay: false,
            est_steps: 100,
            starve_release: 0,
            quiet: 0,
        }
    }
}

#[derive(Clone, Copy, PartialEq, Eq, Debug)]
pub enum Status {
    Registered,
    Runnable,
    /// the calling thread waits for every worker of the frame (scope end of `Runner::run`)
    BlockedJoin,
    /// the calling thread waits for the worker in the given slot (`JoinHandle::join` in spawn order)
    BlockedJoinOn(usize),
    /// the thread held the token and stopped making steps for 10 s of wall clock: it is taken to be blocked in an
    /// OS primitive the simulator has no seam for (a mutex, channel, barrier added to the library) and the token
    /// was given to somebody else; it rejoins the schedule at its next yield point
    BlockedOs,
    Done,
}

#[derive(Clone, Debug)]
pub struct SlotInfo {
    /// kernel thread id of the slot's OS thread (Linux, not under Miri): lets the caller wait until a worker
    /// that has logically exited is really gone, so that `JoinHandle::is_finished` has one answer
    pub tid: Option<u32>,
    pub status: Status,
    pub frame: usize,
    pub chunk: usize,
    pub prio: u64,
    pub steps: u64,
}

#[derive(Clone, Debug)]
pub struct Frame {
    pub info: RunInfo,
    pub first_slot: usize,
    pub registered: usize,
    pub logged: usize,
    pub exited: usize,
    pub ended: bool,
    pub end_panicking: bool,
    /// index in the log of the RunBegin event
    pub log_begin: usize,
    pub log_end: usize,
    /// maximum number of workers of this frame that were registered and not exited at the same time
    pub max_live: usize,
    /// number of `BeforeJoinOne` points seen: the k-th one precedes the join of the k-th spawned worker
    pub joins: usize,
    /// tasks the calling thread ran itself inside this frame (a library may count them as spawned)
    pub inline: usize,
}

struct State {
    /// OS thread ids of workers that have passed their exit hook since the last token hand-over: whoever gets
    /// the token next first waits until these threads are really gone, so that whatever the library does on a
    /// worker thread after the hook (storing the result, a wrapper around the task) happens at the exit point
    /// of the schedule and not at a wall-clock dependent moment
    exiting: Vec<u32>,
    active: bool,
    free: bool,
    current: usize,
    slots: Vec<SlotInfo>,
    frames: Vec<Frame>,
    log: Vec<Event>,
    steps: u64,
    decisions: Vec<u16>,
    rng: Rng,
    cfg: Cfg,
    replay_pos: usize,
    diverged: bool,
    abort: Option<String>,
    rescues: u32,
    pct_points: Vec<u64>,
    since_starved: u64,
    /// GrowLate: steps the workers have run since the spawner reached a lag
    grow_steps: u64,
    /// the spawner's most recent decision point
    last_sp: Option<u16>,
    quiet_ctr: u64,
    /// slots that found a lock of a dependency taken and yielded: not eligible until other slots have made
    /// enough steps (exponential back-off: 2, 4, .. 64 steps of progress after consecutive failed attempts)
    spinning: Vec<bool>,
    spin_fail: Vec<u32>,
    spin_wake: Vec<u64>,
    /// number of non-spin steps made so far
    progress: u64,
}

impl State {
    fn new() -> Self {
        State {
            active: false,
            free: true,
            current: 0,
            slots: vec![],
            frames: vec![],
            log: vec![],
            steps: 0,
            decisions: vec![],
            rng: Rng::new(0),
            cfg: Cfg::default(),
            replay_pos: 0,
            diverged: false,
            abort: None,
            rescues: 0,
            pct_points: vec![],
            since_starved: 0,
            grow_steps: 0,
            last_sp: None,
            exiting: vec![],
            quiet_ctr: 0,
            spinning: vec![],
            spin_fail: vec![],
            spin_wake: vec![],
            progress: 0,
        }
    }
}

struct Sim {
    m: Mutex<State>,
    cv: Vec<Condvar>,
}

static SIM: OnceLock<Sim> = OnceLock::new();

fn sim() -> &'static Sim {
    SIM.get_or_init(|| Sim {
        m: Mutex::new(State::new()),
        cv: (0..MAX_SLOTS).map(|_| Condvar::new()).collect(),
    })
}

fn lock() -> MutexGuard<'static, State> {
    match sim().m.lock() {
        Ok(g) => g,
        Err(p) => p.into_inner(),
    }
}

/// Record of one simulated run.
#[derive(Clone, Debug)]
pub struct RunRecord {
    pub log: Vec<Event>,
    pub decisions: Vec<u16>,
    pub frames: Vec<Frame>,
    pub slots: Vec<SlotInfo>,
    pub steps: u64,
    pub abort: Option<String>,
    pub diverged: bool,
    /// number of times a token holder that had stopped was set aside (see `Status::BlockedOs`); such a run is
    /// not guaranteed to replay
    pub rescues: u32,
}

fn dep_hook(site: u32, a: usize, b: usize) {
    if mode() != MODE_SIM {
        return;
    }
    let spin = site as u16 == DEP_SPIN || site as u16 == DEP_BAG_SPIN;
    event_ex(Kind::Dep, site as u16, a as u64, b as u64, true, spin);
}

static HOOKS: Hooks = Hooks {
    run_begin: hook_run_begin,
    run_end: hook_run_end,
    spawner_point: hook_spawner_point,
    worker_enter: hook_worker_enter,
    worker_exit: hook_worker_exit,
    available_parallelism: hook_available_parallelism,
    skip_lag: hook_skip_lag,
};

pub fn install_hooks() {
    verif::install(&HOOKS);
    orx_concurrent_iter::verif::install(dep_hook);
    orx_pinned_concurrent_col::verif::install(dep_hook);
}

pub fn uninstall_hooks() {
    verif::uninstall();
    orx_concurrent_iter::verif::uninstall();
    orx_pinned_concurrent_col::verif::uninstall();
}

/// Starts a simulated run: the calling thread becomes slot 0 and holds the token.
pub fn begin_run(cfg: Cfg) {
    let mut st = lock();
    *st = State::new();
    st.rng = Rng::stream(cfg.sched_seed, 0x5C4ED);
    if let Policy::Pct(d) = cfg.policy {
        let mut r = Rng::stream(cfg.sched_seed, 0x9C7);
        let n = cfg.est_steps.max(2);
        st.pct_points = (0..d).map(|_| 1 + r.next_u64() % n).collect();
    }
    st.cfg = cfg;
    st.active = true;
    st.free = false;
    st.current = 0;
    let prio = st.rng.next_u64();
    st.slots.push(SlotInfo {
        tid: None,
        status: Status::Runnable,
        frame: usize::MAX,
        chunk: 0,
        prio,
        steps: 0,
    });
    SLOT.with(|s| s.set(0));
    INLINE.with(|d| d.set(0));
    drop(st);
    set_mode(MODE_SIM);
}

/// Ends the run started by `begin_run` and returns its record.
pub fn end_run() -> RunRecord {
    set_mode(MODE_OFF);
    SLOT.with(|s| s.set(NO_SLOT));
    let mut st = lock();
    st.active = false;
    st.free = true;
    let rec = RunRecord {
        log: std::mem::take(&mut st.log),
        decisions: std::mem::take(&mut st.decisions),
        frames: std::mem::take(&mut st.frames),
        slots: std::mem::take(&mut st.slots),
        steps: st.steps,
        abort: st.abort.take(),
        diverged: st.diverged,
        rescues: st.rescues,
    };
    rec
}

pub fn current_slot() -> usize {
    SLOT.with(|s| s.get())
}

pub fn aborting() -> bool {
    if mode() != MODE_SIM {
        return false;
    }
    lock().abort.is_some()
}

fn do_abort(st: &mut State, reason: &str) {
    if st.abort.is_none() {
        st.abort = Some(reason.to_string());
    }
    st.free = true;
    for cv in sim().cv.iter() {
        cv.notify_all();
    }
}

fn runnable(st: &mut State) -> Vec<usize> {
    let all: Vec<usize> = st
        .slots
        .iter()
        .enumerate()
        .filter(|(_, s)| s.status == Status::Runnable)
        .map(|(i, _)| i)
        .collect();
    // a slot that spins on a lock of a dependency is not eligible until the others have made some steps
    let awake = |st: &State| -> Vec<usize> {
        all.iter()
            .copied()
            .filter(|i| !st.spinning.get(*i).copied().unwrap_or(false) || st.spin_wake.get(*i).copied().unwrap_or(0) <= st.progress)
            .collect()
    };
    let a = awake(st);
    if !a.is_empty() || all.is_empty() {
        return a;
    }
    // everybody waits for a lock: like a discrete-event clock, jump to the earliest wake-up, so that every waiting
    // thread gets its turn (the one whose turn it is may be any of them)
    let next = all.iter().map(|i| st.spin_wake.get(*i).copied().unwrap_or(0)).min().unwrap_or(0);
    if next > st.progress {
        st.progress = next;
    }
    awake(st)
}

/// Which slot does Starve(k) starve right now: ordinal k within the newest frame, 255 = the spawner.
fn starved_slot(st: &State, k: u8) -> Option<usize> {
    if k == 255 {
        return Some(0);
    }
    let f = st.frames.last()?;
    let s = f.first_slot + k as usize;
    if s < f.first_slot + f.registered {
        Some(s)
    } else {
        None
    }
}

fn policy_choice(st: &mut State, me: usize, r: &[usize]) -> usize {
    let noise = st.cfg.noise as usize;
    if noise > 0 && st.rng.chance(noise, 100) {
        return r[st.rng.below(r.len())];
    }
    match st.cfg.policy {
        Policy::Uniform => r[st.rng.below(r.len())],
        Policy::Sticky(p) => {
            if r.contains(&me) && st.rng.chance(p as usize, 100) {
                me
            } else {
                r[st.rng.below(r.len())]
            }
        }
        Policy::Pct(_) => {
            let steps = st.steps;
            if st.pct_points.contains(&steps) && r.contains(&me) {
                // priority change point: the running slot drops below everyone
                let low = st.slots.iter().map(|s| s.prio).min().unwrap_or(0);
                st.slots[me].prio = low.saturating_sub(1 + steps);
            }
            *r.iter().max_by_key(|&&s| st.slots[s].prio).unwrap()
        }
        Policy::SpawnerFirst => {
            if r.contains(&0) {
                0
            } else if r.contains(&me) && st.rng.chance(50, 100) {
                me
            } else {
                r[st.rng.below(r.len())]
            }
        }
        Policy::SpawnerLast => {
            // workers run before the spawner, lowest slot first
            *r.iter().find(|&&s| s != 0).unwrap_or(&0)
        }
        Policy::NewestFirst => {
            if r.contains(&0) {
                0
            } else {
                *r.iter().max().unwrap()
            }
        }
        Policy::GrowLate(k) => {
            // where is the spawner? look at its last decision point in the log
            let last_sp = st.last_sp;
            let at_lag = last_sp == Some(SpawnerPoint::BeforeLag as u16);
            let workers: Vec<usize> = r.iter().copied().filter(|s| *s != 0).collect();
            if at_lag && !workers.is_empty() && st.grow_steps < k as u64 {
                // the spawner waits in its lag while the workers make progress
                st.grow_steps += 1;
                if workers.contains(&me) && st.rng.chance(70, 100) {
                    me
                } else {
                    workers[st.rng.below(workers.len())]
                }
            } else if r.contains(&0) {
                if !at_lag {
                    st.grow_steps = 0;
                }
                0
            } else {
                *workers.iter().max().unwrap_or(&r[0])
            }
        }
        Policy::Starve(k) => {
            let starved = starved_slot(st, k);
            let release = st.cfg.starve_release;
            let others: Vec<usize> = r.iter().copied().filter(|s| Some(*s) != starved).collect();
            if others.is_empty() {
                st.since_starved = 0;
                return r[0];
            }
            if release > 0 && st.since_starved >= release && starved.map(|s| r.contains(&s)).unwrap_or(false) {
                st.since_starved = 0;
                return starved.unwrap();
            }
            st.since_starved += 1;
            if others.contains(&me) && st.rng.chance(60, 100) {
                me
            } else {
                others[st.rng.below(others.len())]
            }
        }
    }
}

/// Chooses the next slot to run. `me` is the yielding slot (it may or may not be runnable).
fn pick(st: &mut State, me: usize) -> Option<usize> {
    let r = runnable(st);
    if r.is_empty() {
        return None;
    }
    if r.len() == 1 {
        return Some(r[0]);
    }
    let chosen = if st.cfg.replay.is_some() {
        let pos = st.replay_pos;
        st.replay_pos += 1;
        let d = st.cfg.replay.as_ref().unwrap().get(pos).copied();
        match d {
            Some(d) if r.contains(&(d as usize)) => d as usize,
            _ => {
                st.diverged = true;
                if r.contains(&me) {
                    me
                } else {
                    r[0]
                }
            }
        }
    } else {
        policy_choice(st, me, &r)
    };
    st.decisions.push(chosen as u16);
    Some(chosen)
}

fn stall_ticks() -> u32 {
    360
}

fn wait_for_token(mut st: MutexGuard<'static, State>, me: usize) {
    // a stall is declared only when NOBODY has made any progress for 180 s of wall clock: a blocked thread may
    // legitimately wait for as long as the others need
    let mut idle = 0u32;
    let mut seen = (st.steps, st.quiet_ctr, st.log.len(), st.rescues);
    loop {
        if st.free || st.current == me {
            let gone = std::mem::take(&mut st.exiting);
            drop(st);
            for t in gone {
                wait_thread_gone(Some(t));
            }
            return;
        }
        let (g, t) = match sim().cv[me].wait_timeout(st, Duration::from_millis(500)) {
            Ok(x) => x,
            Err(p) => {
                let x = p.into_inner();
                (x.0, x.1)
            }
        };
        st = g;
        if t.timed_out() {
            let now = (st.steps, st.quiet_ctr, st.log.len(), st.rescues);
            if now == seen {
                idle += 1;
            } else {
                idle = 0;
                seen = now;
            }
            if idle == 20 || (idle > 20 && idle % 20 == 0) {
                // 10 s without a single step: the token holder is most probably blocked in an OS primitive that a
                // parked thread would have to release. Set it aside and let the others run.
                let cur = st.current;
                if cur != me && cur < st.slots.len() && st.slots[cur].status == Status::Runnable {
                    st.slots[cur].status = Status::BlockedOs;
                    st.rescues += 1;
                    let r = runnable(&mut st);
                    if std::env::var_os("PSIM_DEBUG").is_some() {
                        eprintln!("rescue by {}: holder {} set aside, runnable {:?}, statuses {:?}", me, cur, r, st.slots.iter().map(|s| s.status).collect::<Vec<_>>());
                    }
                    if let Some(&next) = r.first() {
                        st.current = next;
                        sim().cv[next].notify_all();
                        if next == me {
                            st.exiting.clear();
                            return;
                        }
                    } else {
                        st.slots[cur].status = Status::Runnable;
                        st.rescues -= 1;
                    }
                }
            }
            if idle > stall_ticks() {
                if std::env::var_os("PSIM_DEBUG").is_some() {
                    eprintln!("stall seen by {}: current {}, statuses {:?}", me, st.current as isize, st.slots.iter().map(|s| s.status).collect::<Vec<_>>());
                }
                do_abort(&mut st, "stall: no thread has made a step for 180 s of wall clock");
                return;
            }
        }
    }
}

/// The running slot has logged its event; hand the token on.
fn yield_token(mut st: MutexGuard<'static, State>, me: usize) {
    st.steps += 1;
    if st.steps > st.cfg.budget {
        do_abort(&mut st, "budget: step budget exhausted");
        return;
    }
    match pick(&mut st, me) {
        None if st.slots.iter().any(|s| s.status == Status::BlockedOs) => {
            // everybody waits for a thread that was set aside: the token stays unowned until it comes back
            st.current = NO_SLOT;
            wait_for_token(st, me);
        }
        None => do_abort(&mut st, "deadlock: no runnable slot"),
        Some(next) => {
            if next != me {
                st.current = next;
                sim().cv[next].notify_all();
                wait_for_token(st, me);
            }
        }
    }
}

static REF_LOG: Mutex<Vec<Event>> = Mutex::new(Vec::new());

pub fn take_ref_log() -> Vec<Event> {
    std::mem::take(&mut *REF_LOG.lock().unwrap_or_else(|p| p.into_inner()))
}

/// Yield point (in simulation), log entry (in reference / free mode), nothing otherwise.
/// Returns true if the caller must wind down because the run is being aborted.
pub fn hit(kind: Kind, stage: u16, a: u64, b: u64) -> bool {
    event(kind, stage, a, b, true)
}

/// Log-only point: never parks.
pub fn note(kind: Kind, stage: u16, a: u64, b: u64) -> bool {
    event(kind, stage, a, b, false)
}

fn event(kind: Kind, stage: u16, a: u64, b: u64, may_yield: bool) -> bool {
    event_ex(kind, stage, a, b, may_yield, false)
}

fn event_ex(kind: Kind, stage: u16, a: u64, b: u64, may_yield: bool, spin: bool) -> bool {
    match mode() {
        MODE_OFF => false,
        MODE_REF | MODE_FREE => {
            let slot = current_slot();
            REF_LOG
                .lock()
                .unwrap_or_else(|p| p.into_inner())
                .push(Event {
                    slot: if slot == NO_SLOT { u16::MAX } else { slot as u16 },
                    kind,
                    stage,
                    a,
                    b,
                });
            false
        }
        _ => {
            let me = current_slot();
            if me == NO_SLOT {
                return false;
            }
            let mut st = lock();
            if !st.active {
                return false;
            }
            if st.free {
                return st.abort.is_some();
            }
            if st.slots[me].status == Status::Done {
                // a thread past its worker_exit (e.g. dropping an unjoined result): not under the scheduler
                return false;
            }
            if st.slots[me].status == Status::BlockedOs {
                // a thread that was set aside while blocked is back: it rejoins the schedule here
                st.slots[me].status = Status::Runnable;
                if std::env::var_os("PSIM_DEBUG").is_some() {
                    eprintln!("re-entry of {} at {:?}/{}: current {}", me, kind, stage, st.current as isize);
                }
                if st.current == NO_SLOT {
                    st.current = me;
                }
                if st.current != me {
                    wait_for_token(st, me);
                    st = lock();
                    if st.free {
                        return st.abort.is_some();
                    }
                }
            }
            if st.current != me {
                do_abort(&mut st, "token invariant: a thread ran user code without holding the token");
                return true;
            }
            if std::thread::panicking() {
                // unwinding: table-only for drops; nothing is logged, nothing yields
                return false;
            }
            // (a thread that spins on a lock must always yield: the lock holder may be parked)
            if st.cfg.quiet > 0 && kind != Kind::Panic && !spin {
                st.quiet_ctr += 1;
                if st.quiet_ctr & ((1u64 << st.cfg.quiet) - 1) != 0 {
                    return false;
                }
            }
            st.log.push(Event {
                slot: me as u16,
                kind,
                stage,
                a,
                b,
            });
            if st.spinning.len() < st.slots.len() {
                let n = st.slots.len();
                st.spinning.resize(n, false);
                st.spin_fail.resize(n, 0);
                st.spin_wake.resize(n, 0);
            }
            if spin {
                st.spinning[me] = true;
                st.spin_fail[me] = (st.spin_fail[me] + 1).min(6);
                st.spin_wake[me] = st.progress + (1u64 << st.spin_fail[me]);
            } else {
                // own steps: steps in which the thread did something (waiting for a lock does not count)
                st.slots[me].steps += 1;
                st.progress += 1;
                st.spinning[me] = false;
                st.spin_fail[me] = 0;
            }
            if may_yield {
                yield_token(st, me);
                // re-check abort after regaining control
                let st = lock();
                return st.abort.is_some();
            }
            false
        }
    }
}

fn hook_run_begin(info: &RunInfo) {
    if mode() != MODE_SIM {
        return;
    }
    let me = current_slot();
    if me == NO_SLOT {
        return;
    }
    let mut st = lock();
    if st.free || !st.active {
        return;
    }
    if me != 0 {
        do_abort(&mut st, "nested: runner started from a worker thread");
        return;
    }
    let first_slot = st.slots.len();
    let log_begin = st.log.len();
    let idx = st.frames.len();
    st.frames.push(Frame {
        info: *info,
        first_slot,
        registered: 0,
        logged: 0,
        exited: 0,
        ended: false,
        end_panicking: false,
        log_begin,
        log_end: usize::MAX,
        max_live: 0,
        joins: 0,
        inline: 0,
    });
    st.log.push(Event {
        slot: 0,
        kind: Kind::RunBegin,
        stage: 0,
        a: idx as u64,
        b: info.chunk as u64,
    });
}

fn hook_run_end(panicking: bool) {
    if mode() != MODE_SIM {
        return;
    }
    let me = current_slot();
    if me != 0 {
        return;
    }
    let mut st = lock();
    if !st.active {
        return;
    }
    let n = st.log.len();
    if let Some(f) = st.frames.last_mut() {
        f.ended = true;
        f.end_panicking = panicking;
        f.log_end = n;
    }
    if st.free {
        return;
    }
    let idx = st.frames.len().saturating_sub(1);
    st.log.push(Event {
        slot: 0,
        kind: Kind::RunEnd,
        stage: 0,
        a: idx as u64,
        b: panicking as u64,
    });
}

fn hook_spawner_point(p: SpawnerPoint, n: usize) {
    if mode() != MODE_SIM {
        return;
    }
    let me = current_slot();
    if me != 0 {
        return;
    }
    let mut st = lock();
    if st.free || !st.active {
        return;
    }
    let f = match st.frames.len() {
        0 => return,
        k => k - 1,
    };
    if p == SpawnerPoint::ScopeUnwind {
        // the calling thread unwinds (a joined worker had panicked, or an operator panicked on the caller) and
        // the scope is about to wait for the workers that are still running: give the token away until they
        // are done. Nothing is logged by an unwinding thread except this point.
        while st.frames[f].logged < st.frames[f].registered {
            let slot = st.frames[f].first_slot + st.frames[f].logged;
            st.frames[f].logged += 1;
            st.slots[slot].status = Status::Runnable;
        }
        if st.frames[f].exited < st.frames[f].registered {
            st.log.push(Event {
                slot: 0,
                kind: Kind::Sp,
                stage: p as u16,
                a: 0,
                b: f as u64,
            });
            st.slots[me].status = Status::BlockedJoin;
            yield_token(st, me);
        }
        return;
    }
    // handshake: wait (in real time, with a deterministic outcome) until the n spawned workers have registered
    let mut waited = 0u32;
    // (a task the calling thread ran itself may be counted as spawned by the library: nobody registers for it)
    let need = if p == SpawnerPoint::BeforeJoinOne { 0 } else { n.saturating_sub(st.frames[f].inline) };
    while st.frames[f].registered < need {
        let (g, t) = match sim().cv[me].wait_timeout(st, Duration::from_millis(500)) {
            Ok(x) => x,
            Err(p) => {
                let x = p.into_inner();
                (x.0, x.1)
            }
        };
        st = g;
        if st.free {
            return;
        }
        if t.timed_out() {
            waited += 1;
            if waited > 360 {
                do_abort(&mut st, "harness: a worker the library reported as spawned did not register within 180 s");
                return;
            }
        }
    }
    while st.frames[f].logged < st.frames[f].registered {
        let slot = st.frames[f].first_slot + st.frames[f].logged;
        st.frames[f].logged += 1;
        st.slots[slot].status = Status::Runnable;
        let chunk = st.slots[slot].chunk;
        st.log.push(Event {
            slot: 0,
            kind: Kind::WorkerReg,
            stage: 0,
            a: slot as u64,
            b: chunk as u64,
        });
        let live = st.frames[f].logged - st.frames[f].exited;
        if live > st.frames[f].max_live {
            st.frames[f].max_live = live;
        }
    }
    st.log.push(Event {
        slot: 0,
        kind: Kind::Sp,
        stage: p as u16,
        a: n as u64,
        b: f as u64,
    });
    st.last_sp = Some(p as u16);
    match p {
        // `Runner::run` joins at the end of the scope: the caller continues when every worker is done.
        // The other two drivers join one handle after the other (BeforeJoinOne), so that the calling thread
        // folds the results of the first workers while later ones are still running.
        SpawnerPoint::BeforeJoin => {
            let scope_join = st.frames[f].info.driver == verif::Driver::Run;
            if scope_join && st.frames[f].exited < st.frames[f].registered {
                st.slots[me].status = Status::BlockedJoin;
            }
        }
        SpawnerPoint::BeforeJoinOne => {
            // handles are joined in spawn order; the scheduler counts the joins itself rather than trusting the
            // index the library reports (a changed library might report a stale one and then block for real)
            let k = st.frames[f].joins;
            st.frames[f].joins += 1;
            let slot = st.frames[f].first_slot + k;
            if slot < st.slots.len() && st.slots[slot].status != Status::Done {
                st.slots[me].status = Status::BlockedJoinOn(slot);
            }
        }
        _ => {}
    }
    let join_tid = match p {
        SpawnerPoint::BeforeJoinOne => {
            let k = st.frames[f].joins - 1;
            st.slots.get(st.frames[f].first_slot + k).and_then(|s| s.tid)
        }
        _ => None,
    };
    yield_token(st, me);
    // the worker about to be joined has logically exited; make sure its thread has really finished, so that
    // anything the library asks about the handle (is_finished) does not depend on wall-clock luck
    wait_thread_gone(join_tid);
}

fn own_tid() -> Option<u32> {
    if cfg!(miri) {
        return None;
    }
    let p = std::fs::read_link("/proc/thread-self").ok()?;
    p.file_name()?.to_str()?.parse().ok()
}

/// Real-time wait (deterministic outcome) until the OS thread of a worker that has passed its exit hook is gone.
fn wait_thread_gone(tid: Option<u32>) {
    if let Some(t) = tid {
        let path = format!("/proc/self/task/{}", t);
        let t0 = std::time::Instant::now();
        while std::path::Path::new(&path).exists() {
            if t0.elapsed() > Duration::from_secs(2) {
                break;
            }
            std::thread::yield_now();
        }
    }
}

thread_local! {
    /// depth of tasks that a thread which already has a slot (the calling thread, or a worker) runs itself
    static INLINE: Cell<u32> = const { Cell::new(0) };
}

fn hook_worker_enter(chunk: usize) {
    if mode() != MODE_SIM {
        return;
    }
    if current_slot() != NO_SLOT {
        // a thread that is already under the scheduler runs a task itself (e.g. the calling thread taking part
        // in the work): no new slot, its closures stay attributed to its own slot
        INLINE.with(|d| d.set(d.get() + 1));
        if current_slot() == 0 {
            let mut st = lock();
            if st.active && !st.free {
                if let Some(fr) = st.frames.last_mut() {
                    if !fr.ended {
                        fr.inline += 1;
                    }
                }
            }
        }
        event(Kind::Sp, SP_INLINE_BEGIN, chunk as u64, 0, true);
        return;
    }
    let mut st = lock();
    if st.free || !st.active {
        return;
    }
    let f = match st.frames.len() {
        0 => return,
        k => k - 1,
    };
    let slot = st.slots.len();
    if slot >= MAX_SLOTS {
        do_abort(&mut st, "harness: too many slots");
        return;
    }
    let prio = st.rng.next_u64();
    st.slots.push(SlotInfo {
        tid: own_tid(),
        status: Status::Registered,
        frame: f,
        chunk,
        prio,
        steps: 0,
    });
    st.frames[f].registered += 1;
    SLOT.with(|s| s.set(slot));
    sim().cv[0].notify_all();
    wait_for_token(st, slot);
}

fn hook_worker_exit(panicking: bool) {
    if mode() != MODE_SIM {
        return;
    }
    let me = current_slot();
    if me != NO_SLOT && INLINE.with(|d| d.get()) > 0 {
        INLINE.with(|d| d.set(d.get() - 1));
        if !panicking {
            event(Kind::Sp, SP_INLINE_END, 0, 0, true);
        }
        return;
    }
    if me == NO_SLOT || me == 0 {
        return;
    }
    let mut st = lock();
    if !st.active || me >= st.slots.len() {
        return;
    }
    let f = st.slots[me].frame;
    st.slots[me].status = Status::Done;
    st.frames[f].exited += 1;
    if let Some(t) = st.slots[me].tid {
        if !st.free {
            st.exiting.push(t);
        }
    }
    if st.free {
        return;
    }
    st.log.push(Event {
        slot: me as u16,
        kind: Kind::WorkerEnd,
        stage: 0,
        a: me as u64,
        b: panicking as u64,
    });
    if st.frames[f].exited == st.frames[f].registered && st.slots[0].status == Status::BlockedJoin {
        st.slots[0].status = Status::Runnable;
    }
    if st.slots[0].status == Status::BlockedJoinOn(me) {
        st.slots[0].status = Status::Runnable;
    }
    if st.current != me {
        // a thread that had been set aside (BlockedOs) ends without having got the token back
        if st.current == NO_SLOT {
            if let Some(next) = pick(&mut st, me) {
                st.current = next;
                sim().cv[next].notify_all();
            }
        }
        return;
    }
    st.steps += 1;
    match pick(&mut st, me) {
        None if st.slots.iter().any(|s| s.status == Status::BlockedOs) => st.current = NO_SLOT,
        None => do_abort(&mut st, "deadlock: no runnable slot after a worker exit"),
        Some(next) => {
            st.current = next;
            sim().cv[next].notify_all();
        }
    }
}

fn hook_available_parallelism() -> Option<usize> {
    match mode() {
        MODE_SIM => lock().cfg.avail_par,
        _ => None,
    }
}

fn hook_skip_lag() -> bool {
    match mode() {
        MODE_SIM => lock().cfg.skip_lag,
        _ => false,
    }
}
