//! Reference model: the scenario interpreted sequentially, element by element and depth first, exactly like the
//! same chain of `std::iter` adaptors would evaluate it. Pure data (`RTok`), no threads, no library code.

use crate::closures::{endless_val, inner_fault_arg};
use crate::pipeline::{prefix_tok, Value};
use crate::scenario::*;
use crate::tok::RTok;

/// One closure invocation: (stage, first argument id, second argument / ordinal)
pub type CallRec = (u16, u64, u64);

#[derive(Clone, Debug)]
pub struct Ref {
    /// elements after the whole chain, with the position of the source element each one stems from
    pub finals: Vec<(usize, RTok)>,
    /// chain closure calls (stages 0..=3 and inner iterators), in sequential evaluation order, for the part
    /// of the input the sequential execution of the terminal visits
    pub calls: Vec<CallRec>,
    /// how many source elements the sequential execution consumes
    pub consumed: usize,
    /// expected value (ties and ids of folded values are compared by `value_matches`)
    pub value: Value,
    /// position (in `finals`) of the first match for short-circuit terminals
    pub match_at: Option<usize>,
    /// source position of the element the first match stems from
    pub match_src_pos: Option<usize>,
    /// for short-circuit terminals with a match: how many entries of `calls` a lazy sequential execution
    /// performs before it stops (it stops inside the element that yields the match)
    pub seq_calls_len: Option<usize>,
    /// number of tokens the full evaluation creates (work estimate)
    pub work: u64,
    /// clones performed by the source adaptor (SliceCloned): ids cloned
    pub clones: Vec<u64>,
}

fn src_elem(scn: &Scenario, i: usize) -> RTok {
    let val = if scn.src == Src::IterEndless {
        endless_val(&scn.vals, i)
    } else {
        scn.vals[i]
    };
    RTok::leaf(src_id(i), val)
}

/// state of the depth-first evaluation
struct Eval<'a> {
    scn: &'a Scenario,
    is_match: &'a dyn Fn(&RTok) -> bool,
    /// number of calls a lazy sequential execution has made when it meets the first match
    stop_calls: Option<usize>,
}

fn push_through(ev: &mut Eval, x: RTok, pos: usize, level: usize, out: &mut Vec<(usize, RTok)>, calls: &mut Vec<CallRec>, work: &mut u64) {
    let scn = ev.scn;
    if level == scn.ops.len() {
        if ev.stop_calls.is_none() && (ev.is_match)(&x) {
            ev.stop_calls = Some(calls.len());
        }
        out.push((pos, x));
        return;
    }
    let stage = (level + 1) as u16;
    let op = &scn.ops[level];
    calls.push((stage, x.id, 0));
    match op {
        Op::Map { .. } => {
            *work += 1;
            push_through(ev, map_fn(stage, op, x), pos, level + 1, out, calls, work)
        }
        Op::Filter { .. } => {
            if filter_fn(op, &x) {
                push_through(ev, x, pos, level + 1, out, calls, work)
            }
        }
        Op::FlatMap { .. } => {
            let n = flatmap_count(op, &x);
            for j in 0..n {
                calls.push((stage + INNER, x.id, j as u64));
                *work += 1;
                push_through(ev, flatmap_child(stage, &x, j), pos, level + 1, out, calls, work);
            }
            calls.push((stage + INNER, x.id, u64::MAX));
        }
        Op::FilterMap { .. } => {
            if let Some(y) = filtermap_fn(stage, op, x) {
                *work += 1;
                push_through(ev, y, pos, level + 1, out, calls, work)
            }
        }
    }
}

fn fold_all(op: RedOp, xs: &[(usize, RTok)]) -> Option<RTok> {
    let mut it = xs.iter().map(|x| x.1);
    let first = it.next()?;
    Some(it.fold(first, |a, b| red_fn(op, a, b)))
}

const ENDLESS_CAP: usize = 200_000;

pub fn reference(scn: &Scenario) -> Ref {
    let mut finals = vec![];
    let mut calls = vec![];
    let mut clones = vec![];
    let mut work = 0u64;
    let short = scn.term.is_short_circuit();
    let pred: Option<&Pred> = match &scn.term {
        Term::Find(p) | Term::Any(p) | Term::All(p) | Term::FindWithIndex(p) => Some(p),
        _ => None,
    };
    let negate = matches!(scn.term, Term::All(_));
    let is_match = |x: &RTok| -> bool {
        match pred {
            Some(p) => p.eval(x) != negate,
            None => true, // first
        }
    };
    let n = if scn.src == Src::IterEndless { ENDLESS_CAP } else { scn.vals.len() };
    let mut consumed = 0;
    let mut match_at = None;
    let mut match_src_pos = None;
    let never = |_: &RTok| false;
    let mut ev = Eval {
        scn,
        is_match: if short { &is_match } else { &never },
        stop_calls: None,
    };
    let order: Vec<usize> = if scn.src == Src::IterEndless { vec![] } else { source_order(scn.src, &scn.vals) };
    let n = if scn.src == Src::IterEndless { n } else { order.len() };
    // k: position in source order (what `*_with_index` reports); i: index of the input value (id = i + 1)
    for k in scn.pre.min(n)..n {
        let i = if scn.src == Src::IterEndless { k } else { order[k] };
        let mut x = src_elem(scn, i);
        work += 1;
        if scn.src.clones() {
            clones.push(x.id);
            x = clone_fn(x);
            work += 1;
        } else if matches!(scn.src, Src::Range | Src::BMap | Src::SliceCopied) {
            calls.push((STAGE_SRC, x.id, 0));
        }
        let before = finals.len();
        push_through(&mut ev, x, k, 0, &mut finals, &mut calls, &mut work);
        consumed = k + 1;
        if short && match_at.is_none() {
            if let Some(m) = (before..finals.len()).find(|&m| is_match(&finals[m].1)) {
                match_at = Some(m);
                match_src_pos = Some(k);
                if scn.src == Src::IterEndless {
                    break;
                }
            }
        }
    }
    let seq_calls_len = ev.stop_calls;

    let value = match &scn.term {
        Term::CollectVec | Term::Collect => Value::Seq(finals.iter().map(|x| x.1).collect()),
        Term::CollectX => Value::Bag(finals.iter().map(|x| x.1).collect()),
        Term::CollectInto(t) => {
            let mut v: Vec<RTok> = (0..t.prefix).map(prefix_tok).collect();
            v.extend(finals.iter().map(|x| x.1));
            Value::Into(v)
        }
        Term::Count | Term::CollectXUnit => Value::Count(finals.len()),
        Term::ForEach => Value::Unit,
        Term::Reduce(op) => Value::Opt(fold_all(*op, &finals)),
        Term::Fold(op) => Value::One(fold_all(*op, &finals).unwrap_or(RTok { id: 0, val: 0, w_cnt: 0, w_sum: 0, w_xor: 0 })),
        Term::Sum => Value::One(fold_all(RedOp::Add, &finals).unwrap_or(RTok { id: 0, val: 0, w_cnt: 0, w_sum: 0, w_xor: 0 })),
        Term::Min => Value::Opt(finals.iter().map(|x| x.1).min_by_key(|x| x.val)),
        Term::Max => Value::Opt(finals.iter().map(|x| x.1).max_by_key(|x| x.val)),
        Term::MinBy(k) | Term::MinByKey(k) => Value::Opt(finals.iter().map(|x| x.1).min_by_key(|x| key_fn(*k, x))),
        Term::MaxBy(k) | Term::MaxByKey(k) => Value::Opt(finals.iter().map(|x| x.1).max_by_key(|x| key_fn(*k, x))),
        Term::Find(_) | Term::First => Value::Opt(match_at.map(|k| finals[k].1)),
        Term::Any(_) => Value::Bool(match_at.is_some()),
        Term::All(_) => Value::Bool(match_at.is_none()),
        Term::FindWithIndex(_) | Term::FirstWithIndex => Value::OptIdx(match_at.map(|k| (finals[k].0, finals[k].1))),
    };
    Ref {
        finals,
        calls,
        consumed,
        value,
        match_at,
        match_src_pos,
        seq_calls_len,
        work,
        clones,
    }
}

/// Does the value returned by the library agree with the reference, under the equality the property states?
/// Returns a description of the first difference.
pub fn value_matches(scn: &Scenario, r: &Ref, got: &Value) -> Result<(), String> {
    let same_fold = |a: &RTok, b: &RTok| a.val == b.val && a.w_cnt == b.w_cnt && a.w_sum == b.w_sum && a.w_xor == b.w_xor;
    match (&r.value, got) {
        (Value::Seq(a), Value::Seq(b)) | (Value::Into(a), Value::Into(b)) => {
            if a == b {
                Ok(())
            } else {
                let k = a.iter().zip(b.iter()).position(|(x, y)| x != y).unwrap_or(a.len().min(b.len()));
                Err(format!(
                    "sequence differs at position {}: expected len {} got len {}; expected {:?} got {:?}",
                    k,
                    a.len(),
                    b.len(),
                    a.get(k).map(|x| (x.id, x.val)),
                    b.get(k).map(|x| (x.id, x.val))
                ))
            }
        }
        (Value::Bag(a), Value::Bag(b)) => {
            let mut x: Vec<_> = a.clone();
            let mut y: Vec<_> = b.clone();
            x.sort();
            y.sort();
            if x == y {
                Ok(())
            } else {
                Err(format!("multiset differs: expected {} elements, got {}", x.len(), y.len()))
            }
        }
        (Value::Count(a), Value::Count(b)) => {
            if a == b {
                Ok(())
            } else {
                Err(format!("count: expected {} got {}", a, b))
            }
        }
        (Value::Unit, Value::Unit) => Ok(()),
        (Value::Bool(a), Value::Bool(b)) => {
            if a == b {
                Ok(())
            } else {
                Err(format!("bool: expected {} got {}", a, b))
            }
        }
        (Value::One(a), Value::One(b)) => {
            if same_fold(a, b) {
                Ok(())
            } else {
                Err(format!("fold: expected {:?} got {:?}", a, b))
            }
        }
        (Value::OptIdx(a), Value::OptIdx(b)) => {
            if a == b {
                Ok(())
            } else {
                Err(format!(
                    "with_index: expected {:?} got {:?}",
                    a.map(|x| (x.0, x.1.id)),
                    b.map(|x| (x.0, x.1.id))
                ))
            }
        }
        (Value::Opt(a), Value::Opt(b)) => match &scn.term {
            Term::Reduce(_) => match (a, b) {
                (None, None) => Ok(()),
                (Some(x), Some(y)) if same_fold(x, y) => Ok(()),
                _ => Err(format!("reduce: expected {:?} got {:?}", a, b)),
            },
            Term::Min | Term::Max | Term::MinBy(_) | Term::MaxBy(_) | Term::MinByKey(_) | Term::MaxByKey(_) => {
                let key = |x: &RTok| match &scn.term {
                    Term::Min | Term::Max => x.val,
                    Term::MinBy(k) | Term::MaxBy(k) | Term::MinByKey(k) | Term::MaxByKey(k) => key_fn(*k, x),
                    _ => unreachable!(),
                };
                match (a, b) {
                    (None, None) => Ok(()),
                    (Some(x), Some(y)) => {
                        // one of the extremal elements: same extremal key, and an element that really exists
                        if key(x) == key(y) && r.finals.iter().any(|f| f.1 == *y) {
                            Ok(())
                        } else {
                            Err(format!("extremum: expected key {} (e.g. id {}), got id {} with key {}", key(x), x.id, y.id, key(y)))
                        }
                    }
                    _ => Err(format!("extremum: expected {:?} got {:?}", a.map(|x| x.id), b.map(|x| x.id))),
                }
            }
            _ => {
                if a == b {
                    Ok(())
                } else {
                    Err(format!(
                        "find: expected {:?} got {:?}",
                        a.map(|x| (x.id, x.val)),
                        b.map(|x| (x.id, x.val))
                    ))
                }
            }
        },
        (_, Value::Unsupported) => Err("harness: unsupported (shape, terminal) pair".into()),
        (a, b) => Err(format!("value kinds differ: expected {:?} got {:?}", a, b)),
    }
}

/// argument id used for fault triggers on the inner iterator
pub fn inner_arg(parent: u64, ord: u64) -> u64 {
    inner_fault_arg(parent, ord)
}

/// Independent cross-check of the reference model: the same chain built from boxed `std::iter` adaptors.
pub fn std_chain_finals(scn: &Scenario) -> Vec<RTok> {
    let order = source_order(scn.src, &scn.vals);
    let src: Vec<RTok> = order
        .iter()
        .skip(scn.pre.min(order.len()))
        .map(|&i| {
            let x = RTok::leaf(src_id(i), scn.vals[i]);
            if scn.src.clones() {
                clone_fn(x)
            } else {
                x
            }
        })
        .collect();
    let mut it: Box<dyn Iterator<Item = RTok>> = Box::new(src.into_iter());
    for (level, op) in scn.ops.iter().enumerate() {
        let stage = (level + 1) as u16;
        let op = *op;
        it = match op {
            Op::Map { .. } => Box::new(it.map(move |x| map_fn(stage, &op, x))),
            Op::Filter { .. } => Box::new(it.filter(move |x| filter_fn(&op, x))),
            Op::FlatMap { .. } => Box::new(it.flat_map(move |x| {
                let n = flatmap_count(&op, &x);
                (0..n).map(move |j| flatmap_child(stage, &x, j)).collect::<Vec<_>>()
            })),
            Op::FilterMap { .. } => Box::new(it.filter_map(move |x| filtermap_fn(stage, &op, x))),
        };
    }
    it.collect()
}

/// Runs the cross-check over generated scenarios of every family; returns the number of scenarios compared.
pub fn selftest(n: u64) -> Result<u64, String> {
    let mut checked = 0;
    for prop in ["C01", "C02", "C03", "C04", "C05", "C06", "C07", "C13"] {
        for seed in 0..n {
            let scn = crate::gen::generate(prop, seed * 7919 + 13);
            if scn.src == Src::IterEndless || scn.vals.len() > 400 {
                continue;
            }
            let rf = reference(&scn);
            let a: Vec<RTok> = rf.finals.iter().map(|x| x.1).collect();
            let b = std_chain_finals(&scn);
            if a != b {
                return Err(format!("reference model and std chain differ for {}", scn.encode()));
            }
            // terminal values against std
            match (&scn.term, &rf.value) {
                (Term::Count, crate::pipeline::Value::Count(c)) if *c != b.len() => return Err(format!("count: {}", scn.encode())),
                (Term::Find(p), crate::pipeline::Value::Opt(v)) if *v != b.iter().find(|x| p.eval(x)).copied() => {
                    return Err(format!("find: {}", scn.encode()))
                }
                (Term::Any(p), crate::pipeline::Value::Bool(v)) if *v != b.iter().any(|x| p.eval(x)) => return Err(format!("any: {}", scn.encode())),
                (Term::All(p), crate::pipeline::Value::Bool(v)) if *v != b.iter().all(|x| p.eval(x)) => return Err(format!("all: {}", scn.encode())),
                (Term::First, crate::pipeline::Value::Opt(v)) if *v != b.first().copied() => return Err(format!("first: {}", scn.encode())),
                (Term::Reduce(op), crate::pipeline::Value::Opt(v)) => {
                    let w = b.iter().copied().reduce(|x, y| red_fn(*op, x, y));
                    if v.map(|x| (x.val, x.w_cnt, x.w_sum, x.w_xor)) != w.map(|x| (x.val, x.w_cnt, x.w_sum, x.w_xor)) {
                        return Err(format!("reduce: {}", scn.encode()));
                    }
                }
                _ => {}
            }
            checked += 1;
        }
    }
    Ok(checked)
}

#[cfg(test)]
mod tests {
    #[test]
    fn reference_agrees_with_std_chain() {
        assert!(super::selftest(300).unwrap() > 1000);
    }
}
