//! Small deterministic PRNG (xoshiro256** seeded through SplitMix64), splittable into named streams.
//! No other source of randomness exists anywhere in the harness.

#[derive(Clone, Debug)]
pub struct Rng {
    s: [u64; 4],
}

#[inline]
pub fn splitmix(x: &mut u64) -> u64 {
    *x = x.wrapping_add(0x9E37_79B9_7F4A_7C15);
    let mut z = *x;
    z = (z ^ (z >> 30)).wrapping_mul(0xBF58_476D_1CE4_E5B9);
    z = (z ^ (z >> 27)).wrapping_mul(0x94D0_49BB_1331_11EB);
    z ^ (z >> 31)
}

/// 64-bit mixing function used for ids and value hashes.
#[inline]
pub fn mix(a: u64, b: u64, c: u64) -> u64 {
    let mut x = a
        .wrapping_mul(0x9E37_79B9_7F4A_7C15)
        .wrapping_add(b.rotate_left(23))
        .wrapping_add(c.wrapping_mul(0xD6E8_FEB8_6659_FD93));
    x ^= x >> 32;
    x = x.wrapping_mul(0xD6E8_FEB8_6659_FD93);
    x ^= x >> 29;
    x = x.wrapping_mul(0x9FB2_1C65_1E98_DF25);
    x ^= x >> 32;
    x
}

impl Rng {
    pub fn new(seed: u64) -> Self {
        let mut x = seed;
        let s = [
            splitmix(&mut x),
            splitmix(&mut x),
            splitmix(&mut x),
            splitmix(&mut x),
        ];
        Self { s }
    }

    /// Independent stream derived from (seed, stream id).
    pub fn stream(seed: u64, stream: u64) -> Self {
        Self::new(mix(seed, stream, 0x5EED))
    }

    #[inline]
    pub fn next_u64(&mut self) -> u64 {
        let r = self.s[1].wrapping_mul(5).rotate_left(7).wrapping_mul(9);
        let t = self.s[1] << 17;
        self.s[2] ^= self.s[0];
        self.s[3] ^= self.s[1];
        self.s[1] ^= self.s[2];
        self.s[0] ^= self.s[3];
        self.s[2] ^= t;
        self.s[3] = self.s[3].rotate_left(45);
        r
    }

    /// Uniform in 0..n (n > 0).
    #[inline]
    pub fn below(&mut self, n: usize) -> usize {
        debug_assert!(n > 0);
        (self.next_u64() % (n as u64)) as usize
    }

    /// Uniform in lo..=hi.
    #[inline]
    pub fn range(&mut self, lo: usize, hi: usize) -> usize {
        lo + self.below(hi - lo + 1)
    }

    /// True with probability num/den.
    #[inline]
    pub fn chance(&mut self, num: usize, den: usize) -> bool {
        self.below(den) < num
    }

    pub fn pick<'a, T>(&mut self, xs: &'a [T]) -> &'a T {
        &xs[self.below(xs.len())]
    }
}
