use psim::exec::*;
use psim::gen::generate;
use psim::minimise::minimise;
use psim::oracle::{self, Verdict};
use psim::scenario::*;
use psim::sched;
use std::io::Write;

fn arg<'a>(args: &'a [String], name: &str) -> Option<&'a str> {
    args.iter().position(|a| a == name).and_then(|i| args.get(i + 1)).map(|s| s.as_str())
}
fn flag(args: &[String], name: &str) -> bool {
    args.iter().any(|a| a == name)
}

pub fn jstr(s: &str) -> String {
    let mut o = String::with_capacity(s.len() + 2);
    o.push('"');
    for c in s.chars() {
        match c {
            '"' => o.push_str("\\\""),
            '\\' => o.push_str("\\\\"),
            '\n' => o.push_str("\\n"),
            '\t' => o.push_str("\\t"),
            c if (c as u32) < 0x20 => o.push_str(&format!("\\u{:04x}", c as u32)),
            c => o.push(c),
        }
    }
    o.push('"');
    o
}

/// `--scenario TEXT` or `--scenario @FILE` (large inputs do not fit on a command line)
fn scenario_arg(args: &[String]) -> Scenario {
    let a = arg(args, "--scenario").expect("--scenario");
    let text = match a.strip_prefix('@') {
        Some(path) => std::fs::read_to_string(path).expect("scenario file"),
        None => a.to_string(),
    };
    Scenario::decode(text.trim()).expect("scenario text")
}

fn parse_decisions(s: &str) -> Vec<u16> {
    let owned;
    let s = match s.strip_prefix('@') {
        Some(path) => {
            owned = std::fs::read_to_string(path).expect("decision file");
            owned.trim()
        }
        None => s,
    };
    s.split(',').filter(|x| !x.is_empty()).map(|x| x.parse().expect("decision")).collect()
}

fn enc_decisions(d: &[u16]) -> String {
    d.iter().map(|x| x.to_string()).collect::<Vec<_>>().join(",")
}

fn report(prop: &str, seed: u64, scn: &Scenario, rf: &psim::reference::Ref, ex: &Exec, full: bool) -> (String, bool, Vec<String>) {
    let v = oracle::check(prop, scn, rf, ex);
    let (verdict, keys, detail) = match &v {
        Verdict::Ok => ("ok", vec![], String::new()),
        Verdict::Violation(fs) => (
            "violation",
            fs.iter().map(|x| x.key.clone()).collect::<Vec<_>>(),
            fs.iter().map(|x| format!("[{}] {}", x.key, x.detail)).collect::<Vec<_>>().join(" ; "),
        ),
        Verdict::Harness(m) => ("harness", vec![], m.clone()),
    };
    let bad = verdict != "ok";
    let workers: usize = ex.rec.frames.iter().map(|f| f.registered).sum();
    let probes = oracle::probes(scn, rf, ex);
    let mut s = String::new();
    s.push_str(&format!(
        "{{\"seed\":{},\"verdict\":{},\"keys\":[{}],\"detail\":{},\"steps\":{},\"decisions\":{},\"workers\":{},\"frames\":{},\"ilv\":\"{:016x}\",\"nontrivial\":{},\"probes\":[{}],\"policy\":{},\"term\":{},\"src\":{},\"shape\":{},\"len\":{},\"hash\":\"{:016x}\",\"fired\":{},\"panicked\":{},\"rescues\":{}",
        seed,
        jstr(verdict),
        keys.iter().map(|k| jstr(k)).collect::<Vec<_>>().join(","),
        jstr(&detail),
        ex.rec.steps,
        ex.rec.decisions.len(),
        workers,
        ex.rec.frames.len(),
        oracle::interleaving_hash(ex),
        oracle::nontrivial(ex),
        probes.iter().map(|k| jstr(k)).collect::<Vec<_>>().join(","),
        jstr(&scn.policy.encode()),
        jstr(scn.term.name()),
        jstr(scn.src.name()),
        jstr(&scn.shape()),
        scn.vals.len(),
        log_hash(&ex.rec),
        ex.fired.iter().filter(|x| **x).count(),
        ex.outcome.is_err(),
        ex.rec.rescues,
    ));
    if bad || full {
        s.push_str(&format!(
            ",\"scenario\":{},\"decision_list\":{}",
            jstr(&scn.encode()),
            jstr(&enc_decisions(&ex.rec.decisions))
        ));
    }
    s.push('}');
    (s, bad, keys)
}

fn main() {
    let args: Vec<String> = std::env::args().collect();
    if args.len() < 2 {
        eprintln!("usage: psim run|replay|minimise|gen ...");
        std::process::exit(2);
    }
    sched::install_hooks();
    install_panic_hook();
    let out = std::io::stdout();
    match args[1].as_str() {
        "selftest-reference" => {
            let n: u64 = arg(&args, "--count").unwrap_or("2000").parse().unwrap();
            match psim::reference::selftest(n) {
                Ok(k) => println!("reference model agrees with a boxed std::iter chain on {} generated scenarios", k),
                Err(e) => {
                    println!("HARNESS-ERROR: {}", e);
                    std::process::exit(2);
                }
            }
        }
        "gen" => {
            let prop = arg(&args, "--prop").expect("--prop");
            let seed: u64 = arg(&args, "--seed").expect("--seed").parse().unwrap();
            println!("{}", generate(arg(&args, "--gen").unwrap_or(prop), seed).encode());
        }
        "run" => {
            let prop = arg(&args, "--prop").expect("--prop");
            let start: u64 = arg(&args, "--start").unwrap_or("0").parse().unwrap();
            let count: u64 = arg(&args, "--count").unwrap_or("1").parse().unwrap();
            let stride: u64 = arg(&args, "--stride").unwrap_or("1").parse().unwrap();
            let deadline = arg(&args, "--seconds").map(|s| std::time::Instant::now() + std::time::Duration::from_secs_f64(s.parse().unwrap()));
            let sample_every: u64 = arg(&args, "--sample-every").unwrap_or("0").parse().unwrap();
            let max_viol: u64 = arg(&args, "--max-violations").unwrap_or("20").parse().unwrap();
            let ignore: Vec<String> = arg(&args, "--ignore-keys").map(|s| s.split(',').map(|x| x.to_string()).collect()).unwrap_or_default();
            let mut nviol = 0;
            for i in 0..count {
                if let Some(d) = deadline {
                    if std::time::Instant::now() >= d {
                        break;
                    }
                }
                let seed = start + i * stride;
                {
                    let mut o = out.lock();
                    writeln!(o, "{{\"begin\":{}}}", seed).unwrap();
                    o.flush().unwrap();
                }
                let scn = generate(arg(&args, "--gen").unwrap_or(prop), seed);
                let (rf, ex) = exec(&scn, None, false);
                let full = sample_every > 0 && i % sample_every == 0;
                let (line, bad, keys) = report(prop, seed, &scn, &rf, &ex, full);
                let bad = bad && !(keys.iter().all(|k| ignore.contains(k)) && !keys.is_empty());
                let mut o = out.lock();
                writeln!(o, "{}", line).unwrap();
                o.flush().unwrap();
                if bad {
                    nviol += 1;
                    if nviol >= max_viol {
                        break;
                    }
                }
            }
            let mut o = out.lock();
            writeln!(o, "{{\"done\":true}}").unwrap();
        }
        "replay" => {
            let prop = arg(&args, "--prop").expect("--prop");
            let scn = scenario_arg(&args);
            let dec = arg(&args, "--decisions").map(parse_decisions);
            let (rf, ex) = exec(&scn, dec, flag(&args, "--tolerant"));
            let (line, _, _) = report(prop, scn.seed, &scn, &rf, &ex, true);
            println!("{}", line);
            if flag(&args, "--log") {
                for e in &ex.rec.log {
                    eprintln!("{:?}", e);
                }
                eprintln!("outcome: {:?}", ex.outcome);
                eprintln!("frames: {:?}", ex.rec.frames);
            }
            if ex.rec.diverged {
                eprintln!("replay diverged from the decision list");
            }
        }
        "minimise" => {
            let prop = arg(&args, "--prop").expect("--prop");
            let scn = scenario_arg(&args);
            let key = arg(&args, "--key").expect("--key");
            let budget: usize = arg(&args, "--runs").unwrap_or("400").parse().unwrap();
            let seconds: f64 = arg(&args, "--seconds").unwrap_or("60").parse().unwrap();
            let m = minimise(prop, &scn, key, budget, seconds);
            println!(
                "{{\"scenario\":{},\"decision_list\":{},\"hash\":\"{:016x}\",\"runs\":{},\"detail\":{},\"reproduced\":{}}}",
                jstr(&m.scenario.encode()),
                jstr(&enc_decisions(&m.decisions)),
                m.hash,
                m.runs,
                jstr(&m.detail),
                m.reproduced
            );
        }
        _ => {
            eprintln!("unknown command");
            std::process::exit(2);
        }
    }
}
