use psim::exec::*;
use psim::scenario::*;
use psim::sched::{self, Policy};

fn main() {
    sched::install_hooks();
    install_panic_hook();
    let scn = Scenario {
        seed: 1, src: Src::Vec, vals: (0..20).map(|x| x % 5).collect(),
        ops: vec![Op::Map{mul:2,add:1}, Op::Filter{m:3,t:2,salt:1}],
        nt: vec![(0,3)], cs: vec![(0,Chunk::Exact(2))], term: Term::CollectVec,
        policy: Policy::Uniform, noise: 0, avail: 8, sched_seed: 5, faults: vec![], starve_release: 0,
    };
    println!("{}", scn.encode());
    assert_eq!(Scenario::decode(&scn.encode()).unwrap(), scn);
    let t = std::time::Instant::now();
    let (r, e) = exec(&scn, None, false);
    println!("{:?} steps={} decisions={} abort={:?} hash={:x}", t.elapsed(), e.rec.steps, e.rec.decisions.len(), e.rec.abort, log_hash(&e.rec));
    println!("match: {:?}", psim::reference::value_matches(&scn, &r, e.outcome.as_ref().unwrap()));
    let (_, e2) = exec(&scn, None, false);
    println!("again hash={:x}", log_hash(&e2.rec));
    let (_, e3) = exec(&scn, Some(e.rec.decisions.clone()), false);
    println!("replay hash={:x} diverged={}", log_hash(&e3.rec), e3.rec.diverged);
    for ev in e.rec.log.iter().take(40) { println!("{:?}", ev); }
}
