//! The user code of every simulated pipeline: instrumented closures, the by-value source iterator, the iterator
//! returned by flat_map closures and the fallible value returned by filter_map closures.
//! Every entry is a yield point of the scheduler and a potential injected panic.

use crate::scenario::*;
use crate::sched::{self, Kind};
use crate::tok::{RTok, Tok};
use orx_parallel::Fallible;
use std::sync::atomic::{AtomicBool, AtomicU64, Ordering};
use std::sync::Mutex;

pub const PANIC_INJECTED: &str = "psim:injected";
pub const PANIC_ABORT: &str = "psim:abort";

#[derive(Default)]
struct Rt {
    faults: Vec<Fault>,
    fired: Vec<bool>,
    counts: Vec<(u16, u32)>,
}

static RT: Mutex<Option<Rt>> = Mutex::new(None);
static FRESH: AtomicU64 = AtomicU64::new(0);
pub static SRC_REENTRY: AtomicU64 = AtomicU64::new(0);

pub fn rt_reset(faults: &[Fault]) {
    *RT.lock().unwrap_or_else(|p| p.into_inner()) = Some(Rt {
        faults: faults.to_vec(),
        fired: vec![false; faults.len()],
        counts: vec![],
    });
    FRESH.store(0, Ordering::SeqCst);
    SRC_REENTRY.store(0, Ordering::SeqCst);
}

/// which faults fired
pub fn rt_fired() -> Vec<bool> {
    RT.lock()
        .unwrap_or_else(|p| p.into_inner())
        .as_ref()
        .map(|r| r.fired.clone())
        .unwrap_or_default()
}

fn fresh_id(tag: u64) -> u64 {
    crate::rng::mix(tag, FRESH.fetch_add(1, Ordering::SeqCst), 0xF4E5)
}

fn fault_check(stage: u16, a: u64) -> bool {
    let mut g = RT.lock().unwrap_or_else(|p| p.into_inner());
    let rt = match g.as_mut() {
        Some(r) => r,
        None => return false,
    };
    if rt.faults.is_empty() {
        return false;
    }
    let n = match rt.counts.iter_mut().find(|c| c.0 == stage) {
        Some(c) => {
            c.1 += 1;
            c.1 - 1
        }
        None => {
            rt.counts.push((stage, 1));
            0
        }
    };
    let mut fire = false;
    for (i, f) in rt.faults.iter().enumerate() {
        if f.stage != stage {
            continue;
        }
        let m = match f.trigger {
            Trigger::Arg(x) => x == a,
            Trigger::Nth(k) => k == n,
        };
        if m {
            rt.fired[i] = true;
            fire = true;
        }
    }
    fire
}

/// Fault check for code that has its own yield point (Clone of the item type).
pub fn maybe_fault(stage: u16, a: u64, b: u64) {
    if sched::mode() != sched::MODE_REF && fault_check(stage, a) {
        sched::note(Kind::Panic, stage, a, b);
        std::panic::panic_any(PANIC_INJECTED);
    }
}

/// Entry of a user closure: yield point, then fault check.
#[inline(never)]
pub fn enter(stage: u16, a: u64, b: u64) {
    if sched::hit(Kind::Call, stage, a, b) && !std::thread::panicking() {
        std::panic::panic_any(PANIC_ABORT);
    }
    if sched::mode() != sched::MODE_REF && fault_check(stage, a) {
        sched::note(Kind::Panic, stage, a, b);
        std::panic::panic_any(PANIC_INJECTED);
    }
}

// ---------------------------------------------------------------------------------------------
// chain closures

pub fn mk_map(stage: u16, op: Op) -> impl Fn(Tok) -> Tok + Send + Sync + Clone {
    move |t: Tok| {
        enter(stage, t.id(), 0);
        let out = map_fn(stage, &op, t.d);
        drop(t);
        Tok::new(out)
    }
}

pub fn mk_filter(stage: u16, op: Op) -> impl Fn(&Tok) -> bool + Send + Sync + Clone {
    move |t: &Tok| {
        enter(stage, t.id(), 0);
        let r = filter_fn(&op, &t.d);
        sched::note(Kind::Ret, stage, t.id(), r as u64);
        r
    }
}

/// Iterator returned by a flat_map closure.
pub struct Inner {
    stage: u16,
    parent: RTok,
    n: usize,
    next: usize,
    /// eager mode: the children already exist
    made: Vec<Option<Tok>>,
}

impl Iterator for Inner {
    type Item = Tok;
    fn next(&mut self) -> Option<Tok> {
        let ord = if self.next < self.n { self.next as u64 } else { u64::MAX };
        if sched::hit(Kind::Inner, self.stage + INNER, self.parent.id, ord) && !std::thread::panicking() {
            std::panic::panic_any(PANIC_ABORT);
        }
        if sched::mode() != sched::MODE_REF
            && fault_check(self.stage + INNER, crate::rng::mix(self.parent.id, ord, 0x1))
        {
            sched::note(Kind::Panic, self.stage + INNER, self.parent.id, ord);
            std::panic::panic_any(PANIC_INJECTED);
        }
        if self.next >= self.n {
            return None;
        }
        let j = self.next;
        self.next += 1;
        if self.made.is_empty() {
            Some(Tok::new(flatmap_child(self.stage, &self.parent, j)))
        } else {
            self.made[j].take()
        }
    }
    fn size_hint(&self) -> (usize, Option<usize>) {
        (self.n - self.next, Some(self.n - self.next))
    }
}

/// the argument id used by fault triggers on the inner iterator of a flat_map stage
pub fn inner_fault_arg(parent_id: u64, ord: u64) -> u64 {
    crate::rng::mix(parent_id, ord, 0x1)
}

pub fn mk_flatmap(stage: u16, op: Op) -> impl Fn(Tok) -> Inner + Send + Sync + Clone {
    move |t: Tok| {
        enter(stage, t.id(), 0);
        let n = flatmap_count(&op, &t.d);
        let lazy = matches!(op, Op::FlatMap { lazy: true, .. });
        let parent = t.d;
        let made = if lazy {
            vec![]
        } else {
            (0..n).map(|j| Some(Tok::new(flatmap_child(stage, &parent, j)))).collect()
        };
        drop(t);
        Inner {
            stage,
            parent,
            n,
            next: 0,
            made,
        }
    }
}

/// Value returned by filter_map closures: delegates to the library's `Fallible` impls of `Option` and `Result`.
pub enum Fo {
    Opt(Option<Tok>),
    Res(Result<Tok, String>),
}

impl Fallible<Tok> for Fo {
    fn value(self) -> Tok {
        match self {
            Fo::Opt(x) => Fallible::value(x),
            Fo::Res(x) => Fallible::value(x),
        }
    }
    fn has_value(&self) -> bool {
        match self {
            Fo::Opt(x) => Fallible::has_value(x),
            Fo::Res(x) => Fallible::has_value(x),
        }
    }
}

pub fn mk_filtermap(stage: u16, op: Op) -> impl Fn(Tok) -> Fo + Send + Sync + Clone {
    move |t: Tok| {
        enter(stage, t.id(), 0);
        let out = filtermap_fn(stage, &op, t.d);
        let res = matches!(op, Op::FilterMap { res: true, .. });
        let id = t.id();
        drop(t);
        sched::note(Kind::Ret, stage, id, out.is_some() as u64);
        match (res, out) {
            (false, x) => Fo::Opt(x.map(Tok::new)),
            (true, Some(x)) => Fo::Res(Ok(Tok::new(x))),
            (true, None) => Fo::Res(Err("no".to_string())),
        }
    }
}

// ---------------------------------------------------------------------------------------------
// source adaptors and terminal closures

/// `(0..n).into_par().map(...)`: turns position i into the i-th input token
pub fn mk_range_src(vals: std::sync::Arc<Vec<i64>>) -> impl Fn(usize) -> Tok + Send + Sync + Clone {
    move |i: usize| {
        enter(STAGE_SRC, src_id(i), 0);
        Tok::leaf(src_id(i), vals[i])
    }
}

/// `BTreeMap<u32, Tok>::into_par().map(..)`: keeps the value
pub fn mk_pair_src() -> impl Fn((u32, Tok)) -> Tok + Send + Sync + Clone {
    move |(_k, t): (u32, Tok)| {
        enter(STAGE_SRC, t.id(), 0);
        t
    }
}

/// `BTreeMap<u32, Tok>::par().map(..)`: clones the value
pub fn mk_pair_ref_src() -> impl for<'a> Fn((&'a u32, &'a Tok)) -> Tok + Send + Sync + Clone {
    move |(_k, t): (&u32, &Tok)| t.clone()
}

pub fn mk_pred(pred: Pred) -> impl Fn(&Tok) -> bool + Send + Sync + Clone {
    move |t: &Tok| {
        enter(STAGE_PRED, t.id(), 0);
        let r = pred.eval(&t.d);
        sched::note(Kind::Ret, STAGE_PRED, t.id(), r as u64);
        r
    }
}

pub fn mk_red(op: RedOp) -> impl Fn(Tok, Tok) -> Tok + Send + Sync + Clone {
    move |a: Tok, b: Tok| {
        enter(STAGE_RED, a.id(), b.id());
        let out = red_fn(op, a.d, b.d);
        drop(a);
        drop(b);
        Tok::new(out)
    }
}

pub fn mk_ident() -> impl Fn() -> Tok {
    move || {
        enter(STAGE_IDENT, 0, 0);
        Tok::new(RTok {
            id: fresh_id(0x1DE7),
            val: 0,
            w_cnt: 0,
            w_sum: 0,
            w_xor: 0,
        })
    }
}

pub fn mk_cmp(k: u8) -> impl Fn(&Tok, &Tok) -> std::cmp::Ordering + Sync {
    move |a: &Tok, b: &Tok| {
        enter(STAGE_CMP, a.id(), b.id());
        key_fn(k, &a.d).cmp(&key_fn(k, &b.d))
    }
}

pub fn mk_key(k: u8) -> impl Fn(&Tok) -> i64 + Sync {
    move |a: &Tok| {
        enter(STAGE_KEY, a.id(), 0);
        key_fn(k, &a.d)
    }
}

pub fn mk_each() -> impl Fn(Tok) + Send + Sync + Clone {
    move |t: Tok| {
        enter(STAGE_EACH, t.id(), 0);
        drop(t);
    }
}

impl Default for Tok {
    fn default() -> Self {
        Tok::new(RTok {
            id: fresh_id(0xDEF),
            val: 0,
            w_cnt: 0,
            w_sum: 0,
            w_xor: 0,
        })
    }
}

impl std::ops::Add for Tok {
    type Output = Tok;
    fn add(self, rhs: Tok) -> Tok {
        enter(STAGE_RED, self.id(), rhs.id());
        let out = red_fn(RedOp::Add, self.d, rhs.d);
        drop(self);
        drop(rhs);
        Tok::new(out)
    }
}

// ---------------------------------------------------------------------------------------------
// by-value source iterator

pub struct SrcIter {
    vals: std::sync::Arc<Vec<i64>>,
    pos: usize,
    endless: bool,
    exact: bool,
    entered: AtomicBool,
}

impl SrcIter {
    pub fn new(vals: std::sync::Arc<Vec<i64>>, src: Src) -> Self {
        SrcIter {
            vals,
            pos: 0,
            endless: src == Src::IterEndless,
            exact: src == Src::IterExact,
            entered: AtomicBool::new(false),
        }
    }
}

/// value of the i-th element of the endless source
pub fn endless_val(vals: &[i64], i: usize) -> i64 {
    if vals.is_empty() {
        (i % 7) as i64
    } else {
        vals[i % vals.len()].wrapping_add((i / vals.len()) as i64)
    }
}

impl Iterator for SrcIter {
    type Item = Tok;
    fn next(&mut self) -> Option<Tok> {
        if self.entered.swap(true, Ordering::SeqCst) {
            SRC_REENTRY.fetch_add(1, Ordering::SeqCst);
        }
        let r = if self.endless {
            // winds down when the run is being aborted, so that an endless pipeline can be stopped
            if sched::aborting() {
                None
            } else {
                let i = self.pos;
                self.pos += 1;
                Some((src_id(i), endless_val(&self.vals, i)))
            }
        } else if self.pos < self.vals.len() {
            let i = self.pos;
            self.pos += 1;
            Some((src_id(i), self.vals[i]))
        } else {
            None
        };
        // a yield point inside the concurrent iterator's critical section: the threads that want the handle
        // meanwhile yield from the (hooked) spin loop of the vendored dependency instead of spinning for ever
        let r = if sched::hit(Kind::SrcNext, 0, r.map(|x| x.0).unwrap_or(0), self.pos as u64) { None } else { r };
        let out = r.map(|(id, v)| Tok::leaf(id, v));
        self.entered.store(false, Ordering::SeqCst);
        out
    }
    fn size_hint(&self) -> (usize, Option<usize>) {
        if self.endless {
            (usize::MAX, None)
        } else if self.exact {
            let n = self.vals.len() - self.pos;
            (n, Some(n))
        } else {
            (0, Some(self.vals.len() - self.pos))
        }
    }
}
