//! Oracles: one per property, each evaluated over the recorded history of a run and the reference model.
//! A check evaluates only the oracle of the property it was asked for.

use crate::exec::Exec;
use crate::pipeline::{prefix_tok, Value};
use crate::reference::{value_matches, Ref};
use crate::scenario::*;
use crate::sched::{Event, Kind};
use std::collections::BTreeMap;

#[derive(Clone, Debug)]
pub struct Finding {
    /// class of the violation: identifies a known finding; stable under shrinking
    pub key: String,
    pub detail: String,
}

#[derive(Clone, Debug)]
pub enum Verdict {
    Ok,
    Violation(Vec<Finding>),
    /// the harness itself failed (never a statement about the property)
    Harness(String),
}

fn f(key: &str, detail: String) -> Finding {
    Finding {
        key: key.to_string(),
        detail,
    }
}

fn is_chain_stage(s: u16) -> bool {
    s <= 3 || (s > INNER && s <= INNER + 3)
}

/// multiset of chain closure calls observed in the run
fn sim_calls(log: &[Event]) -> BTreeMap<(u16, u64, u64), u32> {
    let mut m = BTreeMap::new();
    for e in log {
        match e.kind {
            Kind::Call if is_chain_stage(e.stage) => *m.entry((e.stage, e.a, 0)).or_insert(0) += 1,
            Kind::Inner => *m.entry((e.stage, e.a, e.b)).or_insert(0) += 1,
            _ => {}
        }
    }
    m
}

fn ref_calls(rf: &Ref) -> BTreeMap<(u16, u64, u64), u32> {
    let mut m = BTreeMap::new();
    for c in &rf.calls {
        *m.entry(*c).or_insert(0) += 1;
    }
    m
}

/// Outcome-level preconditions shared by the value oracles: the run ended, by returning.
fn returned<'a>(ex: &'a Exec, out: &mut Vec<Finding>) -> Option<&'a Value> {
    if let Some(a) = &ex.rec.abort {
        if a.starts_with("budget") || a.starts_with("deadlock") || a.starts_with("stall") {
            out.push(f("hang", format!("the computation did not finish: {} (budget {} steps)", a, ex.budget)));
        }
        return None;
    }
    match &ex.outcome {
        Ok(v) => Some(v),
        Err(msg) => {
            out.push(f("panic", format!("the computation panicked without any injected fault: {} {:?}", msg, ex.panic_msgs)));
            None
        }
    }
}

fn harness_abort(ex: &Exec) -> Option<String> {
    match &ex.rec.abort {
        Some(a) if !(a.starts_with("budget") || a.starts_with("deadlock") || a.starts_with("stall")) => Some(a.clone()),
        _ => None,
    }
}

pub fn check(prop: &str, scn: &Scenario, rf: &Ref, ex: &Exec) -> Verdict {
    if let Some(a) = harness_abort(ex) {
        return Verdict::Harness(a);
    }
    if let Ok(Value::Unsupported) = &ex.outcome {
        return Verdict::Harness("unsupported (shape, terminal) pair generated".into());
    }
    let mut out = vec![];
    match prop {
        "C01" | "C02" | "C03" | "C07" => {
            if let Some(v) = returned(ex, &mut out) {
                if let Err(d) = value_matches(scn, rf, v) {
                    out.push(f("value", d));
                }
            }
        }
        "C04" => {
            if let Some(v) = returned(ex, &mut out) {
                if let Err(d) = value_matches(scn, rf, v) {
                    out.push(f("value", d));
                }
                if scn.term == Term::ForEach {
                    let mut got: Vec<u64> = ex
                        .rec
                        .log
                        .iter()
                        .filter(|e| e.kind == Kind::Call && e.stage == STAGE_EACH)
                        .map(|e| e.a)
                        .collect();
                    let mut want: Vec<u64> = rf.finals.iter().map(|x| x.1.id).collect();
                    got.sort();
                    want.sort();
                    if got != want {
                        out.push(f(
                            "for_each-multiset",
                            format!("for_each body ran on {} elements, expected {}; first difference {:?}", got.len(), want.len(), first_diff(&got, &want)),
                        ));
                    }
                }
            }
        }
        "C05" => c05(scn, rf, ex, &mut out),
        "C06" => {
            if let Some(v) = returned(ex, &mut out) {
                if let Err(d) = value_matches(scn, rf, v) {
                    // name the call site class: which target, known or unknown length, map-only or not
                    let maponly = scn.ops.iter().all(|o| matches!(o, Op::Map { .. }));
                    let key = match &scn.term {
                        Term::CollectInto(t) => format!(
                            "collect_into/{:?}/{}/{}",
                            t.kind,
                            if scn.src.known_len() { "known-len" } else { "unknown-len" },
                            if maponly { "map-only" } else { "general" }
                        ),
                        _ => "value".into(),
                    };
                    out.push(f(&key, d));
                }
                if let Term::CollectInto(t) = &scn.term {
                    for i in 0..t.prefix {
                        let id = prefix_tok(i).id;
                        let life = ex.table.lives.get(&id).copied().unwrap_or_default();
                        if life.created != 1 || life.dropped != 1 {
                            out.push(f("prefix-life", format!("prefix element {} created {} dropped {}", i, life.created, life.dropped)));
                        }
                        if ex.rec.log.iter().any(|e| e.kind == Kind::Clone && e.a == id) {
                            out.push(f("prefix-cloned", format!("prefix element {} was cloned", i)));
                        }
                    }
                }
            }
        }
        _ => return Verdict::Harness(format!("no oracle for {}", prop)),
    }
    if out.is_empty() {
        Verdict::Ok
    } else {
        Verdict::Violation(out)
    }
}

fn first_diff(a: &[u64], b: &[u64]) -> Option<(usize, Option<u64>, Option<u64>)> {
    let n = a.len().max(b.len());
    (0..n).find(|&i| a.get(i) != b.get(i)).map(|i| (i, a.get(i).copied(), b.get(i).copied()))
}

fn c05(scn: &Scenario, rf: &Ref, ex: &Exec, out: &mut Vec<Finding>) {
    if returned(ex, out).is_none() {
        return;
    }
    let got = sim_calls(&ex.rec.log);
    let want = ref_calls(rf);
    let short = scn.term.is_short_circuit();
    if !short {
        if got != want {
            let extra = got.iter().find(|(k, n)| want.get(*k).copied().unwrap_or(0) < **n);
            let missing = want.iter().find(|(k, n)| got.get(*k).copied().unwrap_or(0) < **n);
            out.push(f(
                "call-multiset",
                format!(
                    "closure calls differ from the sequential multiset: {} vs {} distinct; extra {:?}; missing {:?}",
                    got.len(),
                    want.len(),
                    extra,
                    missing
                ),
            ));
        }
    } else {
        for (k, n) in &got {
            if *n > 1 {
                out.push(f("call-twice", format!("closure of stage {} ran {} times on element {}", k.0, n, k.1)));
                break;
            }
            if scn.src != Src::IterEndless && !want.contains_key(k) {
                out.push(f("call-invented", format!("closure of stage {} ran on an element the sequential run never produces: {:?}", k.0, k)));
                break;
            }
        }
    }
    // terminal closures
    let term_calls = |stage: u16| -> Vec<u64> {
        let mut v: Vec<u64> = ex.rec.log.iter().filter(|e| e.kind == Kind::Call && e.stage == stage).map(|e| e.a).collect();
        v.sort();
        v
    };
    let final_ids = {
        let mut v: Vec<u64> = rf.finals.iter().map(|x| x.1.id).collect();
        v.sort();
        v
    };
    match &scn.term {
        Term::ForEach => {
            let got = term_calls(STAGE_EACH);
            if got != final_ids {
                out.push(f("for_each-multiset", format!("for_each body calls {:?}", first_diff(&got, &final_ids))));
            }
        }
        Term::Find(_) | Term::Any(_) | Term::All(_) | Term::FindWithIndex(_) => {
            let got = term_calls(STAGE_PRED);
            if got.windows(2).any(|w| w[0] == w[1]) {
                out.push(f("pred-twice", "predicate evaluated twice on one element".into()));
            }
            if scn.src != Src::IterEndless && got.iter().any(|x| final_ids.binary_search(x).is_err()) {
                out.push(f("pred-invented", "predicate evaluated on an element the chain never yields".into()));
            }
        }
        Term::Reduce(_) | Term::Fold(_) | Term::Sum => {
            let n = ex.rec.log.iter().filter(|e| e.kind == Kind::Call && e.stage == STAGE_RED).count();
            let want = rf.finals.len().saturating_sub(1);
            if n != want {
                out.push(f("reduce-count", format!("operator applied {} times for {} surviving elements", n, rf.finals.len())));
            }
        }
        Term::MinBy(_) | Term::MaxBy(_) => {
            let n = ex.rec.log.iter().filter(|e| e.kind == Kind::Call && e.stage == STAGE_CMP).count();
            let want = rf.finals.len().saturating_sub(1);
            if n != want {
                out.push(f("cmp-count", format!("comparator applied {} times for {} surviving elements", n, rf.finals.len())));
            }
        }
        _ => {}
    }
    // source side
    if scn.src == Src::SliceCloned {
        let mut got: Vec<u64> = ex.rec.log.iter().filter(|e| e.kind == Kind::Clone).map(|e| e.a).collect();
        got.sort();
        let mut want = rf.clones.clone();
        want.sort();
        if !short && got != want {
            out.push(f("clone-multiset", format!("source elements cloned: {:?}", first_diff(&got, &want))));
        }
        if got.windows(2).any(|w| w[0] == w[1]) {
            out.push(f("clone-twice", "a source element was cloned twice".into()));
        }
    }
    if scn.src.is_iter() {
        if ex.src_reentry > 0 {
            out.push(f("source-reentry", format!("the source iterator was entered by two threads at once ({} times)", ex.src_reentry)));
        }
        let mut yielded: Vec<u64> = ex.rec.log.iter().filter(|e| e.kind == Kind::SrcNext && e.a != 0).map(|e| e.a).collect();
        let n_yield = yielded.len();
        yielded.sort();
        if yielded.windows(2).any(|w| w[0] == w[1]) {
            out.push(f("source-duplicate", "the source iterator yielded an element twice".into()));
        }
        // positions must be consecutive: nothing skipped
        if yielded.iter().enumerate().any(|(i, id)| *id != i as u64 + 1) {
            out.push(f("source-gap", "the source iterator was not advanced one element at a time".into()));
        }
        if !short && scn.src != Src::IterEndless && n_yield != scn.vals.len() {
            out.push(f("source-consumption", format!("{} of {} source elements were pulled", n_yield, scn.vals.len())));
        }
        // every yielded element is fed to the pipeline exactly once (full visit) / at most once (short-circuit):
        // observed at the first stage that has a closure
        if let Some(first_stage) = scn.ops.first().map(|_| 1u16) {
            let mut fed: Vec<u64> = ex.rec.log.iter().filter(|e| e.kind == Kind::Call && e.stage == first_stage).map(|e| e.a).collect();
            fed.sort();
            if fed.windows(2).any(|w| w[0] == w[1]) {
                out.push(f("fed-twice", "a source element was fed to the first stage twice".into()));
            }
            if fed.iter().any(|x| yielded.binary_search(x).is_err()) {
                out.push(f("fed-unyielded", "the first stage saw an element the source never yielded".into()));
            }
            if !short && fed != yielded {
                out.push(f("fed-missing", format!("{} elements yielded by the source, {} fed to the first stage", yielded.len(), fed.len())));
            }
        }
    }
}

// ---------------------------------------------------------------------------------------------
// reach probes and interleaving identity

pub fn probes(scn: &Scenario, _rf: &Ref, ex: &Exec) -> Vec<&'static str> {
    let mut p = vec![];
    let log = &ex.rec.log;
    if ex.rec.frames.len() >= 2 {
        p.push("eager_run_at_construction");
    }
    for fr in &ex.rec.frames {
        let slots = fr.first_slot..fr.first_slot + fr.registered;
        // worker that never did anything
        for s in slots.clone() {
            let busy = log.iter().any(|e| e.slot as usize == s && matches!(e.kind, Kind::Call | Kind::Drop | Kind::Clone | Kind::Inner | Kind::SrcNext));
            if !busy {
                p.push("worker_came_back_empty");
                break;
            }
        }
        let chunks: Vec<usize> = slots.clone().map(|s| ex.rec.slots[s].chunk).collect();
        if chunks.windows(2).any(|w| w[0] != w[1]) {
            p.push("min_chunk_grew");
        }
        if fr.registered > 4 {
            p.push("spawn_after_lag_period");
        }
        if fr.registered >= 2 {
            // who touched source element 1 first?
            let first = log[fr.log_begin..fr.log_end.min(log.len())]
                .iter()
                .find(|e| (matches!(e.kind, Kind::Call) && e.a == 1) || (e.kind == Kind::Clone && e.a == 1) || (e.kind == Kind::Drop && e.a == 1));
            if let Some(e) = first {
                if e.slot as usize > fr.first_slot {
                    p.push("late_worker_pulled_chunk0");
                }
            }
        }
    }
    let matched: Vec<u16> = {
        let mut v: Vec<u16> = log.iter().filter(|e| e.kind == Kind::Ret && e.stage == STAGE_PRED && e.b == 1).map(|e| e.slot).collect();
        v.sort();
        v.dedup();
        v
    };
    if matched.len() >= 2 {
        p.push("two_threads_matched");
    }
    if ex.fired.iter().any(|x| *x) {
        p.push("fault_fired");
    }
    let _ = scn;
    p.sort();
    p.dedup();
    p
}

/// Identity of an interleaving: who ran which closure call in which global order (slots and element ids of
/// every closure entry). Two runs with the same value executed the same schedule as far as user code can tell.
pub fn interleaving_hash(ex: &Exec) -> u64 {
    let mut h: u64 = 0xcbf29ce484222325;
    for e in &ex.rec.log {
        if matches!(e.kind, Kind::Call | Kind::Inner | Kind::WorkerReg | Kind::WorkerEnd) {
            for x in [e.slot as u64, e.kind as u64, e.stage as u64, e.a] {
                h ^= x;
                h = h.wrapping_mul(0x100000001b3);
                h ^= h >> 29;
            }
        }
    }
    h
}

/// non-trivial = at least two workers made progress and at least one decision had a real choice
pub fn nontrivial(ex: &Exec) -> bool {
    let mut slots: Vec<u16> = ex.rec.log.iter().filter(|e| e.slot != 0 && matches!(e.kind, Kind::Call | Kind::Inner | Kind::Clone | Kind::Drop)).map(|e| e.slot).collect();
    slots.sort();
    slots.dedup();
    slots.len() >= 2 && !ex.rec.decisions.is_empty()
}
