//! Oracles: one per property, each evaluated over the recorded history of a run and the reference model.
//! A check evaluates only the oracle of the property it was asked for.

use crate::exec::Exec;
use crate::pipeline::{prefix_tok, Value};
use crate::reference::{value_matches, Ref};
use crate::scenario::*;
use crate::sched::{Event, Kind};
use std::collections::BTreeMap;

#[derive(Clone, Debug)]
pub struct Finding {
    /// class of the violation: identifies a known finding; stable under shrinking
    pub key: String,
    pub detail: String,
}

#[derive(Clone, Debug)]
pub enum Verdict {
    Ok,
    Violation(Vec<Finding>),
    /// the harness itself failed (never a statement about the property)
    Harness(String),
}

fn f(key: &str, detail: String) -> Finding {
    Finding {
        key: key.to_string(),
        detail,
    }
}

fn is_chain_stage(s: u16) -> bool {
    s <= 3 || (s > INNER && s <= INNER + 3)
}

/// multiset of chain closure calls observed in the run
fn sim_calls(log: &[Event]) -> BTreeMap<(u16, u64, u64), u32> {
    let mut m = BTreeMap::new();
    for e in log {
        match e.kind {
            Kind::Call if is_chain_stage(e.stage) => *m.entry((e.stage, e.a, 0)).or_insert(0) += 1,
            Kind::Inner => *m.entry((e.stage, e.a, e.b)).or_insert(0) += 1,
            _ => {}
        }
    }
    m
}

fn ref_calls(rf: &Ref) -> BTreeMap<(u16, u64, u64), u32> {
    let mut m = BTreeMap::new();
    for c in &rf.calls {
        *m.entry(*c).or_insert(0) += 1;
    }
    m
}

/// Outcome-level preconditions shared by the value oracles: the run ended, by returning.
fn returned<'a>(ex: &'a Exec, out: &mut Vec<Finding>) -> Option<&'a Value> {
    if let Some(a) = &ex.rec.abort {
        if a.starts_with("budget") || a.starts_with("deadlock") || a.starts_with("stall") {
            out.push(f("hang", format!("the computation did not finish: {} (budget {} steps)", a, ex.budget)));
        }
        return None;
    }
    match &ex.outcome {
        Ok(v) => Some(v),
        Err(msg) => {
            out.push(f("panic", format!("the computation panicked without any injected fault: {} {:?}", msg, ex.panic_msgs)));
            None
        }
    }
}

fn harness_abort(ex: &Exec) -> Option<String> {
    match &ex.rec.abort {
        Some(a) if !(a.starts_with("budget") || a.starts_with("deadlock") || a.starts_with("stall")) => Some(a.clone()),
        _ => None,
    }
}

pub fn check(prop: &str, scn: &Scenario, rf: &Ref, ex: &Exec) -> Verdict {
    if let Some(a) = harness_abort(ex) {
        return Verdict::Harness(a);
    }
    if let Ok(Value::Unsupported) = &ex.outcome {
        return Verdict::Harness("unsupported (shape, terminal) pair generated".into());
    }
    let mut out = vec![];
    match prop {
        "C01" | "C02" | "C03" | "C07" => {
            if let Some(v) = returned(ex, &mut out) {
                if let Err(d) = value_matches(scn, rf, v) {
                    out.push(f("value", d));
                }
            }
            // call-site class for the partially consumed source: positions are absolute, room is relative
            if scn.pre > 0 {
                let maponly = scn.ops.iter().all(|o| matches!(o, Op::Map { .. })) && (!scn.ops.is_empty() || scn.src.has_adaptor());
                let ordered_collect = matches!(scn.term, Term::CollectVec | Term::Collect | Term::CollectInto(_));
                if maponly && ordered_collect && !scn.is_sequential() {
                    for x in out.iter_mut() {
                        if x.key == "panic" {
                            x.key = "pre-consumed-source/map-only-collect".into();
                        }
                    }
                }
                // sequential `*_with_index` counts from the first remaining element, the parallel path from
                // the start of the original source
                if scn.is_sequential() && matches!(scn.term, Term::FindWithIndex(_) | Term::FirstWithIndex) {
                    for x in out.iter_mut() {
                        if x.key == "value" && x.detail.starts_with("with_index") {
                            x.key = "pre-consumed-source/sequential-with-index".into();
                        }
                    }
                }
            }
        }
        "C04" => {
            if let Some(v) = returned(ex, &mut out) {
                if let Err(d) = value_matches(scn, rf, v) {
                    out.push(f("value", d));
                }
                if scn.term == Term::ForEach {
                    let mut got: Vec<u64> = ex
                        .rec
                        .log
                        .iter()
                        .filter(|e| e.kind == Kind::Call && e.stage == STAGE_EACH)
                        .map(|e| e.a)
                        .collect();
                    let mut want: Vec<u64> = rf.finals.iter().map(|x| x.1.id).collect();
                    got.sort();
                    want.sort();
                    if got != want {
                        out.push(f(
                            "for_each-multiset",
                            format!("for_each body ran on {} elements, expected {}; first difference {:?}", got.len(), want.len(), first_diff(&got, &want)),
                        ));
                    }
                }
            }
        }
        "C05" => c05(scn, rf, ex, &mut out),
        "C06" => {
            if let Some(v) = returned(ex, &mut out) {
                if let Err(d) = value_matches(scn, rf, v) {
                    // name the call site class: which target, known or unknown length, map-only or not
                    let maponly = scn.ops.iter().all(|o| matches!(o, Op::Map { .. }));
                    let key = match &scn.term {
                        Term::CollectInto(t) => format!(
                            "collect_into/{:?}/{}/{}",
                            t.kind,
                            if scn.src.known_len() { "known-len" } else { "unknown-len" },
                            if maponly { "map-only" } else { "general" }
                        ),
                        _ => "value".into(),
                    };
                    out.push(f(&key, d));
                }
                if let Term::CollectInto(t) = &scn.term {
                    for i in 0..t.prefix {
                        let id = prefix_tok(i).id;
                        let life = ex.table.lives.get(&id).copied().unwrap_or_default();
                        if life.created != 1 || life.dropped != 1 {
                            out.push(f("prefix-life", format!("prefix element {} created {} dropped {}", i, life.created, life.dropped)));
                        }
                        if ex.rec.log.iter().any(|e| e.kind == Kind::Clone && e.a == id) {
                            out.push(f("prefix-cloned", format!("prefix element {} was cloned", i)));
                        }
                    }
                }
            }
        }
        "C08" => c08(scn, rf, ex, &mut out),
        "C10" => c10(scn, rf, ex, &mut out),
        "C11" => c11(scn, rf, ex, &mut out),
        "C13" => {
            if returned(ex, &mut out).is_some() {
                life_cycle(ex, false, &mut out);
            }
        }
        "C14" => c14(scn, rf, ex, &mut out),
        "C15" => {
            if let Some(v) = returned(ex, &mut out) {
                if let Err(d) = value_matches(scn, rf, v) {
                    out.push(f("value", d));
                }
            }
            // a chunk size near usize::MAX over a source that is not indexable: `begin + c` overflows inside the
            // concurrent iterator (builds with overflow checks); its own finding class
            let huge = scn.cs.iter().any(|x| matches!(x.1, Chunk::Exact(c) | Chunk::Min(c) if c >= 1 << 62));
            // (or, where the pull is buffered, `Vec::with_capacity(c)` fails with "capacity overflow": the same input,
            // the same cause - c is not bounded by anything for these sources)
            let overflow = ex.panic_msgs.iter().any(|m| (m.contains("attempt to add with overflow") && m.contains("orx-concurrent-iter")) || m.contains("capacity overflow"));
            if huge && overflow && (scn.src.is_iter() || scn.src.is_collection()) {
                for x in out.iter_mut() {
                    if x.key == "panic" {
                        x.key = "huge-chunk/iterator-source".to_string();
                    }
                }
            }
        }
        _ => return Verdict::Harness(format!("no oracle for {}", prop)),
    }
    if out.is_empty() {
        Verdict::Ok
    } else {
        Verdict::Violation(out)
    }
}

fn first_diff(a: &[u64], b: &[u64]) -> Option<(usize, Option<u64>, Option<u64>)> {
    let n = a.len().max(b.len());
    (0..n).find(|&i| a.get(i) != b.get(i)).map(|i| (i, a.get(i).copied(), b.get(i).copied()))
}

fn c05(scn: &Scenario, rf: &Ref, ex: &Exec, out: &mut Vec<Finding>) {
    if returned(ex, out).is_none() {
        return;
    }
    let got = sim_calls(&ex.rec.log);
    let want = ref_calls(rf);
    let short = scn.term.is_short_circuit();
    if !short {
        if got != want {
            let extra = got.iter().find(|(k, n)| want.get(*k).copied().unwrap_or(0) < **n);
            let missing = want.iter().find(|(k, n)| got.get(*k).copied().unwrap_or(0) < **n);
            out.push(f(
                "call-multiset",
                format!(
                    "closure calls differ from the sequential multiset: {} vs {} distinct; extra {:?}; missing {:?}",
                    got.len(),
                    want.len(),
                    extra,
                    missing
                ),
            ));
        }
    } else {
        for (k, n) in &got {
            if *n > 1 {
                out.push(f("call-twice", format!("closure of stage {} ran {} times on element {}", k.0, n, k.1)));
                break;
            }
            if scn.src != Src::IterEndless && !want.contains_key(k) {
                out.push(f("call-invented", format!("closure of stage {} ran on an element the sequential run never produces: {:?}", k.0, k)));
                break;
            }
        }
    }
    // terminal closures
    let term_calls = |stage: u16| -> Vec<u64> {
        let mut v: Vec<u64> = ex.rec.log.iter().filter(|e| e.kind == Kind::Call && e.stage == stage).map(|e| e.a).collect();
        v.sort();
        v
    };
    let final_ids = {
        let mut v: Vec<u64> = rf.finals.iter().map(|x| x.1.id).collect();
        v.sort();
        v
    };
    match &scn.term {
        Term::ForEach => {
            let got = term_calls(STAGE_EACH);
            if got != final_ids {
                out.push(f("for_each-multiset", format!("for_each body calls {:?}", first_diff(&got, &final_ids))));
            }
        }
        Term::Find(_) | Term::Any(_) | Term::All(_) | Term::FindWithIndex(_) => {
            let got = term_calls(STAGE_PRED);
            if got.windows(2).any(|w| w[0] == w[1]) {
                out.push(f("pred-twice", "predicate evaluated twice on one element".into()));
            }
            if scn.src != Src::IterEndless && got.iter().any(|x| final_ids.binary_search(x).is_err()) {
                out.push(f("pred-invented", "predicate evaluated on an element the chain never yields".into()));
            }
        }
        Term::Reduce(_) | Term::Fold(_) | Term::Sum => {
            let n = ex.rec.log.iter().filter(|e| e.kind == Kind::Call && e.stage == STAGE_RED).count();
            let want = rf.finals.len().saturating_sub(1);
            if n != want {
                out.push(f("reduce-count", format!("operator applied {} times for {} surviving elements", n, rf.finals.len())));
            }
        }
        Term::MinBy(_) | Term::MaxBy(_) => {
            let n = ex.rec.log.iter().filter(|e| e.kind == Kind::Call && e.stage == STAGE_CMP).count();
            let want = rf.finals.len().saturating_sub(1);
            if n != want {
                out.push(f("cmp-count", format!("comparator applied {} times for {} surviving elements", n, rf.finals.len())));
            }
        }
        _ => {}
    }
    // source side
    if scn.src.clones() {
        let mut got: Vec<u64> = ex.rec.log.iter().filter(|e| e.kind == Kind::Clone).map(|e| e.a).collect();
        got.sort();
        let mut want = rf.clones.clone();
        want.sort();
        if !short && got != want {
            out.push(f("clone-multiset", format!("source elements cloned: {:?}", first_diff(&got, &want))));
        }
        if got.windows(2).any(|w| w[0] == w[1]) {
            out.push(f("clone-twice", "a source element was cloned twice".into()));
        }
    }
    if scn.src.is_iter() {
        if ex.src_reentry > 0 {
            out.push(f("source-reentry", format!("the source iterator was entered by two threads at once ({} times)", ex.src_reentry)));
        }
        let mut yielded: Vec<u64> = ex.rec.log.iter().filter(|e| e.kind == Kind::SrcNext && e.a != 0).map(|e| e.a).collect();
        let n_yield = yielded.len();
        yielded.sort();
        if yielded.windows(2).any(|w| w[0] == w[1]) {
            out.push(f("source-duplicate", "the source iterator yielded an element twice".into()));
        }
        // positions must be consecutive: nothing skipped
        if yielded.iter().enumerate().any(|(i, id)| *id != i as u64 + 1) {
            out.push(f("source-gap", "the source iterator was not advanced one element at a time".into()));
        }
        if !short && scn.src != Src::IterEndless && n_yield != scn.vals.len() {
            out.push(f("source-consumption", format!("{} of {} source elements were pulled", n_yield, scn.vals.len())));
        }
        // every yielded element is fed to the pipeline exactly once (full visit) / at most once (short-circuit):
        // observed at the first stage that has a closure
        if let Some(first_stage) = scn.ops.first().map(|_| 1u16) {
            let mut fed: Vec<u64> = ex.rec.log.iter().filter(|e| e.kind == Kind::Call && e.stage == first_stage).map(|e| e.a).collect();
            fed.sort();
            if fed.windows(2).any(|w| w[0] == w[1]) {
                out.push(f("fed-twice", "a source element was fed to the first stage twice".into()));
            }
            if fed.iter().any(|x| yielded.binary_search(x).is_err()) {
                out.push(f("fed-unyielded", "the first stage saw an element the source never yielded".into()));
            }
            if !short && fed != yielded {
                out.push(f("fed-missing", format!("{} elements yielded by the source, {} fed to the first stage", yielded.len(), fed.len())));
            }
        }
    }
}

// ---------------------------------------------------------------------------------------------
// reach probes and interleaving identity

pub fn probes(scn: &Scenario, _rf: &Ref, ex: &Exec) -> Vec<&'static str> {
    let mut p = vec![];
    let log = &ex.rec.log;
    if ex.rec.frames.len() >= 2 {
        p.push("eager_run_at_construction");
    }
    for fr in &ex.rec.frames {
        let slots = fr.first_slot..fr.first_slot + fr.registered;
        // worker that never did anything
        for s in slots.clone() {
            let busy = log.iter().any(|e| e.slot as usize == s && matches!(e.kind, Kind::Call | Kind::Drop | Kind::Clone | Kind::Inner | Kind::SrcNext));
            if !busy {
                p.push("worker_came_back_empty");
                break;
            }
        }
        let chunks: Vec<usize> = slots.clone().map(|s| ex.rec.slots[s].chunk).collect();
        if chunks.windows(2).any(|w| w[0] != w[1]) {
            p.push("min_chunk_grew");
        }
        if fr.registered > 4 {
            p.push("spawn_after_lag_period");
        }
        if fr.registered >= 2 {
            // who touched source element 1 first?
            let first = log[fr.log_begin..fr.log_end.min(log.len())]
                .iter()
                .find(|e| (matches!(e.kind, Kind::Call) && e.a == 1) || (e.kind == Kind::Clone && e.a == 1) || (e.kind == Kind::Drop && e.a == 1));
            if let Some(e) = first {
                if e.slot as usize > fr.first_slot {
                    p.push("late_worker_pulled_chunk0");
                }
            }
        }
    }
    let matched: Vec<u16> = {
        let mut v: Vec<u16> = log.iter().filter(|e| e.kind == Kind::Ret && e.stage == STAGE_PRED && e.b == 1).map(|e| e.slot).collect();
        v.sort();
        v.dedup();
        v
    };
    if matched.len() >= 2 {
        p.push("two_threads_matched");
    }
    if ex.fired.iter().any(|x| *x) {
        p.push("fault_fired");
    }
    if c10_inconclusive(scn, _rf, ex) {
        p.push("budget_inconclusive_slow_fair_schedule");
    }
    // inside the dependencies
    if log.iter().any(|e| e.kind == Kind::Dep && e.stage == crate::sched::DEP_SPIN) {
        p.push("source_lock_contended");
    }
    if log.iter().any(|e| e.kind == Kind::Dep && e.stage == crate::sched::DEP_BAG_SPIN) {
        p.push("bag_writer_waited_for_growth");
    }
    if log.iter().any(|e| e.kind == Kind::Dep && e.stage == crate::sched::DEP_BAG_GROW) {
        p.push("bag_grew_during_run");
    }
    // a thread was parked inside the source iterator's next() while another thread ran
    for (i, e) in log.iter().enumerate() {
        if e.kind == Kind::SrcNext && e.slot != 0 {
            if let Some(nx) = log.get(i + 1) {
                if nx.slot != e.slot {
                    p.push("parked_inside_source_next");
                    break;
                }
            }
        }
    }
    // a claim (position taken, nothing pulled yet) was overtaken by another thread
    for (i, e) in log.iter().enumerate() {
        if e.kind == Kind::Dep && e.stage == crate::sched::DEP_CLAIM && e.slot != 0 {
            if let Some(nx) = log.get(i + 1) {
                if nx.slot != e.slot {
                    p.push("parked_between_claim_and_pull");
                    break;
                }
            }
        }
    }
    // short-circuit: a later match was published (its finder exited) before an earlier match was evaluated
    {
        let pos_of = |id: u64| _rf.finals.iter().position(|f| f.1.id == id);
        let neg = matches!(scn.term, Term::All(_));
        let hits: Vec<(usize, u16, usize)> = log
            .iter()
            .enumerate()
            .filter(|(_, e)| e.kind == Kind::Ret && e.stage == STAGE_PRED && (e.b == 1) != neg)
            .filter_map(|(i, e)| pos_of(e.a).map(|p| (i, e.slot, p)))
            .collect();
        'outer: for a in &hits {
            for b in &hits {
                if a.2 > b.2 && a.0 < b.0 {
                    // did a's finder exit before b's evaluation?
                    if log[a.0..b.0].iter().any(|e| e.kind == Kind::WorkerEnd && e.slot == a.1) {
                        p.push("later_match_published_first");
                        break 'outer;
                    }
                }
            }
        }
    }
    // faults: the panic fired while other workers were in the middle of their work, and while elements
    // behind the panicking one had already been processed by somebody else
    if let Some(pi) = log.iter().position(|e| e.kind == Kind::Panic) {
        let pslot = log[pi].slot;
        let mut others_started: Vec<u16> = vec![];
        let mut others_ended: Vec<u16> = vec![];
        for e in &log[..pi] {
            if e.slot != 0 && e.slot != pslot {
                if matches!(e.kind, Kind::Call | Kind::Inner | Kind::Clone) && !others_started.contains(&e.slot) {
                    others_started.push(e.slot);
                }
                if e.kind == Kind::WorkerEnd {
                    others_ended.push(e.slot);
                }
            }
        }
        if others_started.iter().any(|s| !others_ended.contains(s)) {
            p.push("panic_while_others_mid_chunk");
        }
        if log[pi].stage >= 1 && log[pi].stage <= 3 || log[pi].stage == STAGE_SRC {
            // ids of source elements are positions + 1 at stage 0/1
            let pa = log[pi].a;
            if pa <= scn.vals.len() as u64
                && log[..pi].iter().any(|e| e.kind == Kind::Call && e.stage == log[pi].stage && e.slot != pslot && e.a > pa && e.a <= scn.vals.len() as u64)
            {
                p.push("later_element_processed_before_panic");
            }
        }
        if log[pi + 1..].iter().any(|e| e.slot != 0 && e.slot != pslot && matches!(e.kind, Kind::Call | Kind::Inner)) {
            p.push("others_kept_working_after_panic");
        }
    }
    let _ = scn;
    p.sort();
    p.dedup();
    p
}

/// Identity of an interleaving: who ran which closure call in which global order (slots and element ids of
/// every closure entry). Two runs with the same value executed the same schedule as far as user code can tell.
pub fn interleaving_hash(ex: &Exec) -> u64 {
    let mut h: u64 = 0xcbf29ce484222325;
    for e in &ex.rec.log {
        if matches!(e.kind, Kind::Call | Kind::Inner | Kind::WorkerReg | Kind::WorkerEnd) {
            for x in [e.slot as u64, e.kind as u64, e.stage as u64, e.a] {
                h ^= x;
                h = h.wrapping_mul(0x100000001b3);
                h ^= h >> 29;
            }
        }
    }
    h
}

/// non-trivial = at least two workers made progress and at least one decision had a real choice
pub fn nontrivial(ex: &Exec) -> bool {
    let mut slots: Vec<u16> = ex.rec.log.iter().filter(|e| e.slot != 0 && matches!(e.kind, Kind::Call | Kind::Inner | Kind::Clone | Kind::Drop)).map(|e| e.slot).collect();
    slots.sort();
    slots.dedup();
    slots.len() >= 2 && !ex.rec.decisions.is_empty()
}

// ---------------------------------------------------------------------------------------------
// C13 / C14: life cycle of every token

fn life_cycle(ex: &Exec, leaks_allowed: bool, out: &mut Vec<Finding>) {
    if ex.table.invalid_drops > 0 {
        // one class for every drop of something that is not a live token: what never-initialised memory
        // happens to contain decides whether it looks like garbage or like a token that was dropped before
        out.push(f("bad-drop", format!("{} drops of memory that does not hold a live token (never initialised or already dropped)", ex.table.invalid_drops)));
    }
    let mut leaks = 0;
    let mut first_leak = 0;
    for (id, l) in &ex.table.lives {
        if l.dropped > l.created.max(1) || (l.created == 0 && l.dropped > 0) {
            if ex.table.invalid_drops == 0 {
                out.push(f("bad-drop", format!("token {} created {} times, dropped {} times", id, l.created, l.dropped)));
            }
            break;
        }
        if l.created > 1 {
            out.push(f("created-twice", format!("token {} created {} times: an element was produced twice", id, l.created)));
            break;
        }
        if l.dropped < l.created {
            leaks += 1;
            if first_leak == 0 {
                first_leak = *id;
            }
        }
    }
    if leaks > 0 && !leaks_allowed {
        out.push(f("leak", format!("{} tokens never dropped, e.g. id {}", leaks, first_leak)));
    }
}

// ---------------------------------------------------------------------------------------------
// C08

fn c08(scn: &Scenario, _rf: &Ref, ex: &Exec, out: &mut Vec<Finding>) {
    if returned(ex, out).is_none() {
        return;
    }
    let n = match scn.nt.first() {
        Some(&(0, n)) if n >= 1 => n,
        _ => return,
    };
    let log = &ex.rec.log;
    if n == 1 {
        // ("no thread is spawned": a runner that starts and lets the calling thread do everything is fine)
        if ex.rec.frames.iter().map(|x| x.registered).sum::<usize>() > 0 {
            out.push(f("max1-spawned", format!("Max(1): the runner was started {} times and {} threads were spawned", ex.rec.frames.len(), ex.rec.frames.iter().map(|x| x.registered).sum::<usize>())));
        }
        if let Some(e) = log.iter().find(|e| e.slot != 0 && matches!(e.kind, Kind::Call | Kind::Inner)) {
            out.push(f("max1-off-thread", format!("Max(1): closure of stage {} ran on thread slot {}", e.stage, e.slot)));
        }
        return;
    }
    for (i, fr) in ex.rec.frames.iter().enumerate() {
        if fr.registered > n {
            out.push(f("too-many-spawned", format!("Max({}): runner frame {} spawned {} threads", n, i, fr.registered)));
        }
        if fr.max_live > n {
            out.push(f("too-many-live", format!("Max({}): {} workers alive at once in frame {}", n, fr.max_live, i)));
        }
    }
    // the calling thread folds results while later workers are still running: workers alive plus the caller
    // must not exceed n whenever the caller executes a closure inside a runner frame
    {
        let mut live: i64 = 0;
        let mut in_frame = false;
        for e in log {
            match e.kind {
                Kind::RunBegin => {
                    in_frame = true;
                    live = 0;
                }
                Kind::RunEnd => in_frame = false,
                Kind::WorkerReg => live += 1,
                Kind::WorkerEnd => live -= 1,
                Kind::Call | Kind::Inner if in_frame && e.slot == 0 => {
                    if live as usize + 1 > n {
                        out.push(f(
                            "too-many-concurrent",
                            format!("Max({}): the calling thread ran a closure of stage {} while {} workers were still running", n, e.stage, live),
                        ));
                        break;
                    }
                }
                _ => {}
            }
        }
    }
    // distinct threads per closure
    let mut per_stage: BTreeMap<u16, Vec<u16>> = BTreeMap::new();
    for e in log {
        if matches!(e.kind, Kind::Call | Kind::Inner) {
            let v = per_stage.entry(e.stage).or_default();
            if !v.contains(&e.slot) {
                v.push(e.slot);
            }
        }
    }
    for (stage, slots) in &per_stage {
        if slots.len() > n {
            let combine = matches!(*stage, STAGE_RED | STAGE_CMP | STAGE_KEY);
            if combine && slots.len() == n + 1 && slots.contains(&0) {
                // the cross-thread combine on the calling thread: n workers plus the caller
                out.push(f(
                    "reduce-operator/caller-combine",
                    format!("Max({}): the reduce operator ran on {} distinct threads (the {} workers and the calling thread)", n, slots.len(), n),
                ));
            } else {
                out.push(f("closure-threads", format!("Max({}): closure of stage {} ran on {} distinct threads {:?}", n, stage, slots.len(), slots)));
            }
        }
    }
}

// ---------------------------------------------------------------------------------------------
// C10

/// events that mark "an element enters the pipeline": the first user code an element meets
fn is_entry(scn: &Scenario, e: &Event) -> bool {
    match scn.src {
        Src::Range => e.kind == Kind::Call && e.stage == STAGE_SRC,
        Src::SliceCloned => e.kind == Kind::Clone,
        _ => {
            if !scn.ops.is_empty() {
                e.kind == Kind::Call && e.stage == 1
            } else {
                e.kind == Kind::Call && e.stage == STAGE_PRED
            }
        }
    }
}

/// On an unbounded source the number of steps a correct run takes depends on the schedule (the others keep
/// pulling while the holder of the match waits for its turn). A budget overrun is a termination failure only
/// if every live thread has had the own steps that suffice to reach the match alone.
pub fn c10_inconclusive(scn: &Scenario, rf: &Ref, ex: &Exec) -> bool {
    if scn.src != Src::IterEndless {
        return false;
    }
    match &ex.rec.abort {
        Some(a) if a.starts_with("budget") => {}
        _ => return false,
    }
    let w = crate::exec::own_steps_bound(rf);
    ex.rec
        .slots
        .iter()
        .enumerate()
        .any(|(i, s)| i != 0 && s.status == crate::sched::Status::Runnable && s.steps < w)
}

fn c10(scn: &Scenario, rf: &Ref, ex: &Exec, out: &mut Vec<Finding>) {
    let log = &ex.rec.log;
    let eager = scn.eager_sites();
    // (a) termination
    if let Some(a) = &ex.rec.abort {
        if a.starts_with("budget") || a.starts_with("deadlock") || a.starts_with("stall") {
            if c10_inconclusive(scn, rf, ex) {
                // fair but slow schedule: some thread has not yet had the steps it needs; no verdict
                return;
            }
            out.push(f("no-termination", format!("the short-circuit terminal did not return within {} steps although a match exists at source position {:?} and every live thread has run at least {} steps of its own: {}", ex.budget, rf.match_src_pos, crate::exec::own_steps_bound(rf), a)));
        }
        return;
    }
    if ex.outcome.is_err() {
        out.push(f("panic", format!("panicked: {:?}", ex.panic_msgs)));
        return;
    }
    let m_src = match rf.match_src_pos {
        Some(m) => m,
        None => return, // nothing to stop early for
    };
    if scn.is_sequential() && scn.nt.iter().all(|x| x.1 == 1) {
        // (d) sequential clause: nothing beyond the first match is evaluated
        let allowed = rf.seq_calls_len.unwrap_or(rf.calls.len());
        let mut want: BTreeMap<(u16, u64, u64), u32> = BTreeMap::new();
        for c in &rf.calls[..allowed] {
            *want.entry(*c).or_insert(0) += 1;
        }
        let got = sim_calls(log);
        let beyond = got.iter().find(|(k, n)| want.get(*k).copied().unwrap_or(0) < **n);
        let pulled = log.iter().filter(|e| e.kind == Kind::SrcNext && e.a != 0).count();
        let over_pull = scn.src.is_iter() && pulled > m_src + 1;
        if beyond.is_some() || over_pull {
            let detail = format!(
                "sequential mode: evaluated beyond the first match (source position {}): extra call {:?}; {} source elements pulled",
                m_src, beyond, pulled
            );
            match eager.first() {
                Some((_, name)) => out.push(f(&format!("eager-site/{}", name), detail)),
                None => out.push(f("seq-beyond-match", detail)),
            }
        }
        return;
    }
    // frames: the terminal's own frame is the last one; earlier frames are materialisations at construction
    let nframes = ex.rec.frames.len();
    if nframes == 0 {
        return;
    }
    if nframes >= 2 {
        // an earlier frame consumed input without any way of noticing a match
        let fr = &ex.rec.frames[0];
        let consumed = log[fr.log_begin..fr.log_end.min(log.len())].iter().filter(|e| is_entry(scn, e)).count();
        let c = ex.rec.slots[fr.first_slot..fr.first_slot + fr.registered].iter().map(|s| s.chunk).max().unwrap_or(1);
        let bound = m_src + 1 + (fr.registered + 1) * c * 2;
        if consumed > bound {
            let name = eager.first().map(|x| x.1).unwrap_or("?");
            out.push(f(
                &format!("eager-site/{}", name),
                format!("the upstream stage was materialised while the chain was built: {} source elements consumed before the terminal started, first match at source position {}", consumed, m_src),
            ));
        }
    }
    let fr = &ex.rec.frames[nframes - 1];
    let lo = fr.log_begin;
    let hi = fr.log_end.min(log.len());
    let flog = &log[lo..hi];
    // the finders: slots on which the match predicate held (or, for `first`, which ended holding a result)
    let finders: Vec<u16> = {
        let mut v: Vec<u16> = flog.iter().filter(|e| e.kind == Kind::Ret && e.stage == STAGE_PRED && e.b == (!matches!(scn.term, Term::All(_))) as u64).map(|e| e.slot).collect();
        v.sort();
        v.dedup();
        v
    };
    if finders.is_empty() {
        return;
    }
    // E: the first worker end of a finder: skip_to_end has certainly been executed by then
    let e_idx = match flog.iter().position(|e| e.kind == Kind::WorkerEnd && finders.contains(&e.slot)) {
        Some(i) => i,
        None => return,
    };
    // (b) the finder itself stops: no element enters on the finder between its match and its end
    let finder = flog[e_idx].slot;
    if let Some(mi) = flog.iter().position(|e| e.slot == finder && e.kind == Kind::Ret && e.stage == STAGE_PRED && e.b == (!matches!(scn.term, Term::All(_))) as u64) {
        let after = flog[mi..e_idx].iter().filter(|e| e.slot == finder && is_entry(scn, e)).count();
        if after > 0 {
            out.push(f("finder-continues", format!("the thread that found the match let {} more elements enter the pipeline before it returned", after)));
        }
    }
    // (c) after E: no pull from a by-value source; every other thread at most finishes the chunk it holds;
    // threads that start after E do nothing
    let after = &flog[e_idx + 1..];
    // a pull that was claimed before E may complete; a pull claimed after E must not yield anything
    let mut late_pulls = 0;
    {
        let mut claimed_after: BTreeMap<u16, bool> = BTreeMap::new();
        for e in after {
            if e.kind == Kind::Dep && e.stage == crate::sched::DEP_CLAIM {
                claimed_after.insert(e.slot, true);
            } else if e.kind == Kind::SrcNext && e.a != 0 && claimed_after.get(&e.slot).copied().unwrap_or(false) {
                late_pulls += 1;
            }
        }
    }
    let mut per_slot: BTreeMap<u16, usize> = BTreeMap::new();
    for e in after {
        if is_entry(scn, e) {
            *per_slot.entry(e.slot).or_insert(0) += 1;
        }
    }
    // "independent of how much input remains": whatever chunk a thread was handed, what it may still process
    // after early exit is bounded by what had been claimed from the source before (a chunk may grow with the
    // progress made so far, never with the input that is left)
    // (claims made before the thread in question was spawned: its own claim does not count)
    let claimed_before_reg = |slot: u16| -> usize {
        let reg = flog.iter().position(|e| e.kind == Kind::WorkerReg && e.a == slot as u64).unwrap_or(0);
        flog[..reg]
            .iter()
            .filter(|e| e.kind == Kind::Dep && e.stage == crate::sched::DEP_CLAIM)
            .map(|e| (e.b as usize).min(scn.vals.len().max(1)))
            .sum::<usize>()
    };
    let base_chunk = fr.info.chunk;
    for (slot, cnt) in per_slot {
        if slot == 0 {
            continue;
        }
        let c = ex.rec.slots[slot as usize].chunk;
        // registered after E?
        let reg_after = after.iter().any(|e| e.kind == Kind::WorkerReg && e.a == slot as u64);
        if reg_after && cnt > 0 && scn.src != Src::SliceCloned && scn.src != Src::Range && scn.src != Src::Vec {
            out.push(f("late-worker-works", format!("a worker registered after early exit was published still processed {} elements", cnt)));
        } else if cnt > 2 * c {
            // "a constant number of chunks per thread": the pinned library needs one (the chunk in progress, or the
            // one claimed just before the exit); two are allowed so that a library that claims its next chunk
            // while it still works on the current one is not reported
            out.push(f("work-after-exit", format!("after early exit was published thread {} let {} more elements enter the pipeline; its chunk size is {}", slot, cnt, c)));
        } else if cnt > 4 * base_chunk.max(claimed_before_reg(slot)) && cnt > 8 {
            // (factor 4: a growth rule may legitimately hand out a multiple of the progress made so far)
            let claimed_before = claimed_before_reg(slot);
            out.push(f(
                "work-after-exit-scales-with-input",
                format!(
                    "after early exit was published thread {} let {} more elements enter the pipeline, more than everything claimed from the source before that thread was spawned ({}) and than the resolved chunk size ({}): its chunk ({}) was sized by the input that was left",
                    slot, cnt, claimed_before, base_chunk, c
                ),
            ));
        }
    }
}

// ---------------------------------------------------------------------------------------------
// C11

fn c11(scn: &Scenario, _rf: &Ref, ex: &Exec, out: &mut Vec<Finding>) {
    if returned(ex, out).is_none() {
        return;
    }
    let c = match scn.cs.first() {
        Some(&(0, Chunk::Exact(c))) | Some(&(0, Chunk::Raw(c))) if c >= 1 => c,
        _ => return,
    };
    let log = &ex.rec.log;
    // (a) the chunk size every worker is handed
    // a chunk larger than a source of known length is the same as a chunk as large as the source (the single pull
    // reaches the end): the library may resolve Exact(c) to the input length in that case
    let expect_for = |input_len: Option<usize>| -> usize {
        match input_len {
            Some(len) if c > len.max(1) => len.max(1),
            _ => c,
        }
    };
    for (i, fr) in ex.rec.frames.iter().enumerate() {
        let want = expect_for(fr.info.input_len);
        if !fr.info.chunk_is_exact || (fr.info.chunk != c && fr.info.chunk != want) {
            out.push(f("resolved-chunk", format!("frame {}: Exact({}) resolved to {} (exact: {}, input length {:?})", i, c, fr.info.chunk, fr.info.chunk_is_exact, fr.info.input_len)));
        }
        for s in fr.first_slot..fr.first_slot + fr.registered {
            if ex.rec.slots[s].chunk != c && ex.rec.slots[s].chunk != want {
                out.push(f("worker-chunk", format!("frame {}: worker {} was handed chunk size {} instead of {}", i, s - fr.first_slot, ex.rec.slots[s].chunk, c)));
                return;
            }
        }
    }
    // (b) by-value sources: bursts of `next` per worker. Two pulls of one worker can only be told apart when
    // every pulled element causes an event on that worker before its next pull: the first stage's closure, a
    // predicate, the for_each body, or the drop of the element (count). A closure-free reduce does not (its
    // first element meets no user code), so it is left to observation (a).
    let separable = !scn.ops.is_empty()
        || matches!(scn.term, Term::Count | Term::ForEach | Term::Find(_) | Term::Any(_) | Term::All(_) | Term::FindWithIndex(_));
    if scn.src.is_iter() && separable {
        let nslots = ex.rec.slots.len();
        let mut burst: Vec<(usize, bool)> = vec![(0, false); nslots]; // (length, saw None)
        let check = |slot: usize, b: (usize, bool), out: &mut Vec<Finding>| {
            if slot == 0 || b.0 == 0 && !b.1 {
                return;
            }
            // (a source of known length shorter than c is pulled in one go of exactly its length)
            let whole = scn.src.known_len() && c > scn.vals.len().max(1) && b.0 == scn.vals.len();
            let ok = if b.1 { b.0 <= c } else { b.0 == c || whole };
            if !ok {
                out.push(f("pull-size", format!("worker slot {} pulled {} elements in one go (end of source reached: {}), Exact({})", slot, b.0, b.1, c)));
            }
        };
        for e in log {
            let s = e.slot as usize;
            if s >= nslots {
                continue;
            }
            if e.kind == Kind::SrcNext {
                if e.a != 0 {
                    burst[s].0 += 1;
                } else {
                    burst[s].1 = true;
                }
            } else if matches!(e.kind, Kind::Call | Kind::Inner | Kind::Drop | Kind::Clone | Kind::WorkerEnd) {
                let b = burst[s];
                burst[s] = (0, false);
                check(s, b, out);
                if !out.is_empty() {
                    return;
                }
            }
        }
    }
    // (c) aligned blocks of the original source are processed by one thread (element ids are positions only for the
    // sequence sources, not for the std collections, which are left to (a) and (d))
    if let Some(fr) = ex.rec.frames.first().filter(|_| !scn.src.is_collection()) {
        let flog = &log[fr.log_begin..fr.log_end.min(log.len())];
        let mut owner: BTreeMap<usize, u16> = BTreeMap::new();
        for e in flog {
            if e.slot == 0 || !is_entry(scn, e) {
                continue;
            }
            if scn.ops.is_empty() && !matches!(scn.src, Src::Range | Src::SliceCloned) {
                // entries are predicate calls on final elements = source elements: ids are positions + 1
            }
            let pos = (e.a as usize).wrapping_sub(1);
            if pos >= scn.vals.len() {
                continue;
            }
            let k = pos / c;
            match owner.get(&k) {
                Some(s) if *s != e.slot => {
                    out.push(f("block-split", format!("elements of block {} (Exact({})) were processed by threads {} and {}", k, c, s, e.slot)));
                    return;
                }
                Some(_) => {}
                None => {
                    owner.insert(k, e.slot);
                }
            }
        }
    }
    // (d) every claim on the concurrent iterator (observed inside the dependency, right after its fetch_add)
    // takes exactly c positions, and the claims of a frame are 0, c, 2c, ... in the order they are made
    for (i, fr) in ex.rec.frames.iter().enumerate() {
        let flog = &log[fr.log_begin..fr.log_end.min(log.len())];
        let mut expect = 0u64;
        for e in flog {
            // (the calling thread makes no claim inside a frame unless it takes part in the work as a worker)
            if e.kind == Kind::Dep && e.stage == crate::sched::DEP_CLAIM {
                let want = expect_for(fr.info.input_len) as u64;
                if e.b != c as u64 && e.b != want {
                    out.push(f("claim-size", format!("frame {}: thread {} claimed {} positions in one pull, Exact({})", i, e.slot, e.b, c)));
                    return;
                }
                // claims beyond the end of the input of the frame are void (after early exit the counter jumps to the
                // end). The input of a frame is the original source only if nothing was materialised before it (a
                // stage evaluated sequentially under num_threads(1) hands a shorter or longer vector to frame 0), so
                // the bound is the length the runner reported; without one only frame 0 is checked, whose input then
                // is the original source of unknown length
                let bound = match fr.info.input_len {
                    Some(n) => Some(n),
                    None if i == 0 => Some(scn.vals.len()),
                    None => None,
                };
                if bound.map(|n| (e.a as usize) < n).unwrap_or(false) {
                    if e.a != expect && e.b == c as u64 {
                        out.push(f("claim-sequence", format!("frame {}: a pull starts at position {} where {} was expected (Exact({}))", i, e.a, expect, c)));
                        return;
                    }
                    expect += e.b;
                }
            }
        }
    }
}

// ---------------------------------------------------------------------------------------------
// C14

fn c14(scn: &Scenario, rf: &Ref, ex: &Exec, out: &mut Vec<Finding>) {
    let site = || {
        let maponly = !scn.ops.is_empty() && scn.ops.iter().all(|o| matches!(o, Op::Map { .. })) || (scn.ops.is_empty() && scn.src.has_adaptor());
        format!(
            "{}/{}/{}",
            scn.term.name(),
            if maponly { "map-only" } else { "general" },
            if scn.src.known_len() { "known-len" } else { "unknown-len" }
        )
    };
    if let Some(a) = &ex.rec.abort {
        if a.starts_with("budget") || a.starts_with("deadlock") || a.starts_with("stall") {
            out.push(f("hang", format!("with an injected panic the call did not finish: {}", a)));
        }
        return;
    }
    let fired = ex.fired.iter().any(|x| *x);
    match (&ex.outcome, fired) {
        (Ok(v), true) => out.push(f(
            &format!("value-after-panic/{}", site()),
            format!("a closure panicked (fault {:?}) but the call returned a value: {:?}", scn.faults, short_value(v)),
        )),
        (Ok(v), false) => {
            if let Err(d) = value_matches(scn, rf, v) {
                out.push(f("value", format!("no fault fired, yet: {}", d)));
            }
        }
        (Err(_), true) => {}
        (Err(m), false) => out.push(f("panic", format!("panicked although no injected fault fired: {} {:?}", m, ex.panic_msgs))),
    }
    let mut tmp = vec![];
    life_cycle(ex, true, &mut tmp);
    for x in tmp {
        out.push(f(&format!("{}/{}", x.key, site()), x.detail));
    }
}

fn short_value(v: &Value) -> String {
    let s = format!("{:?}", v);
    s.chars().take(160).collect()
}
