//! Builds the orx-parallel computation described by a scenario (real library code, generic over the chain
//! shape) and executes its terminal. Called on slot 0 inside a simulated run.

use crate::closures::*;
use crate::scenario::*;
use crate::tok::{RTok, Tok};
use orx_concurrent_iter::{ConcurrentIterX, ConcurrentIterable, IntoConcurrentIter, IterIntoConcurrentIter};
use orx_fixed_vec::FixedVec;
use orx_parallel::*;
use orx_split_vec::{Doubling, Linear, PinnedVec, SplitVec};
use std::num::NonZeroUsize;
use std::sync::Arc;

#[derive(Clone, Debug, PartialEq, Eq)]
pub enum Value {
    /// ordered collection
    Seq(Vec<RTok>),
    /// unordered collection (collect_x)
    Bag(Vec<RTok>),
    /// collect_into: the complete content of the returned target and the addresses-independent prefix check
    Into(Vec<RTok>),
    Count(usize),
    Unit,
    Opt(Option<RTok>),
    OptIdx(Option<(usize, RTok)>),
    Bool(bool),
    One(RTok),
    /// the scenario asks for a (shape, terminal) pair that is not instantiated
    Unsupported,
}

fn seq<I: IntoIterator<Item = Tok>>(it: I) -> Vec<RTok> {
    // dropping the tokens here, on slot 0, completes their life cycle inside the run
    it.into_iter().map(|t| t.d).collect()
}

fn opt(t: Option<Tok>) -> Option<RTok> {
    t.map(|t| t.d)
}

fn set_params<P: Par>(mut p: P, scn: &Scenario, pos: usize) -> P {
    // in the order given, so that re-setting at the same position is expressible
    for &(q, n) in &scn.nt {
        if q as usize == pos {
            p = p.num_threads(n);
        }
    }
    for &(q, c) in &scn.cs {
        if q as usize == pos {
            p = match c {
                Chunk::Raw(n) => p.chunk_size(n),
                Chunk::Auto => p.chunk_size(ChunkSize::Auto),
                Chunk::Exact(n) => p.chunk_size(ChunkSize::Exact(NonZeroUsize::new(n.max(1)).unwrap())),
                Chunk::Min(n) => p.chunk_size(ChunkSize::Min(NonZeroUsize::new(n.max(1)).unwrap())),
            };
        }
    }
    p
}

/// prefix tokens of a collect_into target: ids 1_000_000 + i
pub fn prefix_tok(i: usize) -> RTok {
    RTok::leaf(1_000_000 + i as u64, -(i as i64) - 1)
}

fn terminal_core<P: Par<Item = Tok>>(p: P, scn: &Scenario) -> Value {
    match &scn.term {
        Term::CollectVec => Value::Seq(seq(p.collect_vec())),
        Term::CollectInto(t) => {
            let prefix = (0..t.prefix).map(|i| Tok::new(prefix_tok(i)));
            match t.kind {
                TargetKind::Vec => {
                    let mut v: Vec<Tok> = Vec::with_capacity(t.prefix + t.spare);
                    v.extend(prefix);
                    Value::Into(seq(p.collect_into(v)))
                }
                TargetKind::Fixed => {
                    let mut v: FixedVec<Tok> = FixedVec::new(t.prefix + t.spare);
                    for x in prefix {
                        v.push(x);
                    }
                    Value::Into(seq(p.collect_into(v)))
                }
                TargetKind::SplitDoubling => {
                    let mut v: SplitVec<Tok, Doubling> = SplitVec::with_doubling_growth_and_fragments_capacity(32);
                    for x in prefix {
                        v.push(x);
                    }
                    Value::Into(seq(p.collect_into(v)))
                }
                TargetKind::SplitNew => {
                    let mut v: SplitVec<Tok, Doubling> = SplitVec::new();
                    for x in prefix {
                        v.push(x);
                    }
                    Value::Into(seq(p.collect_into(v)))
                }
                TargetKind::SplitLinearSmall => {
                    let mut v: SplitVec<Tok, Linear> = SplitVec::with_linear_growth(4);
                    for x in prefix {
                        v.push(x);
                    }
                    Value::Into(seq(p.collect_into(v)))
                }
                TargetKind::SplitLinear => {
                    let mut v: SplitVec<Tok, Linear> = SplitVec::with_linear_growth_and_fragments_capacity(14, 64);
                    for x in prefix {
                        v.push(x);
                    }
                    Value::Into(seq(p.collect_into(v)))
                }
            }
        }
        Term::CollectX => Value::Bag(seq(p.collect_x())),
        // zero-sized output type: every Vec<()> reports capacity usize::MAX and never allocates
        Term::CollectXUnit => Value::Count(p.map(|t: Tok| drop(t)).collect_x().into_iter().count()),
        Term::Count => Value::Count(p.count()),
        Term::ForEach => {
            p.for_each(mk_each());
            Value::Unit
        }
        Term::Reduce(r) => Value::Opt(opt(p.reduce(mk_red(*r)))),
        Term::Find(pr) => Value::Opt(opt(p.find(mk_pred(pr.clone())))),
        Term::First => Value::Opt(opt(p.first())),
        _ => Value::Unsupported,
    }
}

fn terminal_all<P: Par<Item = Tok>>(p: P, scn: &Scenario) -> Value {
    match &scn.term {
        Term::Collect => Value::Seq(seq(p.collect())),
        Term::Fold(r) => Value::One(p.fold(mk_ident(), mk_red(*r)).d),
        Term::Sum => Value::One(p.sum().d),
        Term::Min => Value::Opt(opt(p.min())),
        Term::Max => Value::Opt(opt(p.max())),
        Term::MinBy(k) => Value::Opt(opt(p.min_by(mk_cmp(*k)))),
        Term::MaxBy(k) => Value::Opt(opt(p.max_by(mk_cmp(*k)))),
        Term::MinByKey(k) => Value::Opt(opt(p.min_by_key(mk_key(*k)))),
        Term::MaxByKey(k) => Value::Opt(opt(p.max_by_key(mk_key(*k)))),
        Term::Any(pr) => Value::Bool(p.any(mk_pred(pr.clone()))),
        Term::All(pr) => Value::Bool(p.all(mk_pred(pr.clone()))),
        _ => terminal_core(p, scn),
    }
}

macro_rules! chain_fn {
    ($name:ident, $next:ident, $terminal:ident) => {
        fn $name<P: Par<Item = Tok>>(p: P, scn: &Scenario, level: usize) -> Value {
            let p = if level > 0 { set_params(p, scn, level) } else { p };
            if level == scn.ops.len() {
                return $terminal(p, scn);
            }
            let stage = (level + 1) as u16;
            let op = scn.ops[level];
            match op {
                Op::Map { .. } => $next(p.map(mk_map(stage, op)), scn, level + 1),
                Op::Filter { .. } => $next(p.filter(mk_filter(stage, op)), scn, level + 1),
                Op::FlatMap { .. } => $next(p.flat_map(mk_flatmap(stage, op)), scn, level + 1),
                Op::FilterMap { .. } => $next(p.filter_map(mk_filtermap(stage, op)), scn, level + 1),
            }
        }
    };
}

// std collection sources: chains of at most one stage (each collection is its own iterator type)
fn chain_s1<P: Par<Item = Tok>>(p: P, scn: &Scenario, level: usize) -> Value {
    let p = set_params(p, scn, level);
    terminal_all(p, scn)
}
chain_fn!(chain_s0, chain_s1, terminal_all);

fn chain_end<P: Par<Item = Tok>>(p: P, scn: &Scenario, level: usize) -> Value {
    let p = set_params(p, scn, level);
    terminal_core(p, scn)
}
chain_fn!(chain2, chain_end, terminal_core);
chain_fn!(chain1, chain2, terminal_all);
chain_fn!(chain0, chain1, terminal_all);

/// `*_with_index` exist as inherent methods on ParEmpty, ParMap, ParFilter, ParMapFilter only; the chain
/// must be "", "m", "f" or "mf" (after the source adaptor, if any).
macro_rules! with_index {
    ($p:expr, $scn:expr) => {{
        let p = $p;
        match &$scn.term {
            Term::FirstWithIndex => Value::OptIdx(p.first_with_index().map(|x| (x.0, x.1.d))),
            Term::FindWithIndex(pr) => Value::OptIdx(p.find_with_index(mk_pred(pr.clone())).map(|x| (x.0, x.1.d))),
            _ => Value::Unsupported,
        }
    }};
}

fn is_with_index(scn: &Scenario) -> bool {
    matches!(scn.term, Term::FirstWithIndex | Term::FindWithIndex(_))
}

pub fn make_toks(vals: &[i64]) -> Vec<Tok> {
    vals.iter().enumerate().map(|(i, v)| Tok::leaf(src_id(i), *v)).collect()
}

/// Runs the pipeline of the scenario on the calling thread (slot 0).
pub fn run_pipeline(scn: &Scenario) -> Value {
    let shape = scn.shape();
    match scn.src {
        Src::Vec => {
            let v = make_toks(&scn.vals);
            let p = if scn.pre > 0 {
                let ci = v.into_con_iter();
                for _ in 0..scn.pre {
                    drop(ci.next());
                }
                ci.into_par()
            } else {
                v.into_par()
            };
            let p = set_params(p, scn, 0);
            if is_with_index(scn) {
                return match shape.as_str() {
                    "" => with_index!(p, scn),
                    "m" => with_index!(set_params(p.map(mk_map(1, scn.ops[0])), scn, 1), scn),
                    "f" => with_index!(set_params(p.filter(mk_filter(1, scn.ops[0])), scn, 1), scn),
                    "mf" => {
                        let p = set_params(p.map(mk_map(1, scn.ops[0])), scn, 1);
                        with_index!(set_params(p.filter(mk_filter(2, scn.ops[1])), scn, 2), scn)
                    }
                    _ => Value::Unsupported,
                };
            }
            chain0(p, scn, 0)
        }
        Src::SliceCloned => {
            let v = make_toks(&scn.vals);
            let r = {
                let p = if scn.pre > 0 {
                    let ci = v.as_slice().into_con_iter();
                    for _ in 0..scn.pre {
                        let _ = ci.next();
                    }
                    ci.into_par()
                } else {
                    v.par()
                };
                let p = set_params(p, scn, 0).cloned();
                chain0(p, scn, 0)
            };
            drop(v);
            r
        }
        Src::Range => {
            let vals = Arc::new(scn.vals.clone());
            let p = if scn.pre > 0 {
                let ci = (0..scn.vals.len()).con_iter();
                for _ in 0..scn.pre {
                    let _ = ci.next();
                }
                ci.into_par()
            } else {
                (0..scn.vals.len()).into_par()
            };
            let p = set_params(p, scn, 0);
            let p = p.map(mk_range_src(vals));
            if is_with_index(scn) {
                return match shape.as_str() {
                    "" => with_index!(p, scn),
                    "f" => with_index!(set_params(p.filter(mk_filter(1, scn.ops[0])), scn, 1), scn),
                    _ => Value::Unsupported,
                };
            }
            chain0(p, scn, 0)
        }
        Src::IterExact | Src::IterUnknown | Src::IterEndless => {
            let vals = Arc::new(scn.vals.clone());
            let it: Box<dyn Iterator<Item = Tok>> = Box::new(SrcIter::new(vals, scn.src));
            let p = if scn.pre > 0 {
                let ci = it.into_con_iter();
                for _ in 0..scn.pre {
                    drop(ci.next());
                }
                ci.into_par()
            } else {
                it.par()
            };
            let p = set_params(p, scn, 0);
            if is_with_index(scn) {
                return match shape.as_str() {
                    "" => with_index!(p, scn),
                    "m" => with_index!(set_params(p.map(mk_map(1, scn.ops[0])), scn, 1), scn),
                    "f" => with_index!(set_params(p.filter(mk_filter(1, scn.ops[0])), scn, 1), scn),
                    "mf" => {
                        let p = set_params(p.map(mk_map(1, scn.ops[0])), scn, 1);
                        with_index!(set_params(p.filter(mk_filter(2, scn.ops[1])), scn, 2), scn)
                    }
                    _ => Value::Unsupported,
                };
            }
            chain0(p, scn, 0)
        }
        Src::SliceCopied => {
            if scn.ops.len() > 1 || is_with_index(scn) {
                return Value::Unsupported;
            }
            let vals = Arc::new(scn.vals.clone());
            let positions: Vec<usize> = (0..scn.vals.len()).collect();
            let r = {
                let p = set_params(positions.par(), scn, 0).copied().map(mk_range_src(vals));
                chain_s0(p, scn, 0)
            };
            drop(positions);
            r
        }
        Src::Deque | Src::List | Src::BSet | Src::Heap | Src::BMap => {
            use std::collections::{BTreeMap, BTreeSet, BinaryHeap, LinkedList, VecDeque};
            if scn.ops.len() > 1 || is_with_index(scn) {
                return Value::Unsupported;
            }
            let toks = make_toks(&scn.vals);
            match scn.src {
                Src::Deque => {
                    // fill from both ends so that the ring buffer wraps
                    let mut d: VecDeque<Tok> = VecDeque::with_capacity(toks.len().max(1));
                    let half = toks.len() / 2;
                    let mut front: Vec<Tok> = vec![];
                    for (i, t) in toks.into_iter().enumerate() {
                        if i < half {
                            front.push(t);
                        } else {
                            d.push_back(t);
                        }
                    }
                    while let Some(t) = front.pop() {
                        d.push_front(t);
                    }
                    chain_s0(set_params(d.into_par(), scn, 0), scn, 0)
                }
                Src::List => {
                    let l: LinkedList<Tok> = toks.into_iter().collect();
                    chain_s0(set_params(l.into_par(), scn, 0), scn, 0)
                }
                Src::BSet => {
                    let mut b: BTreeSet<Tok> = BTreeSet::new();
                    for t in toks {
                        b.insert(t);
                    }
                    chain_s0(set_params(b.into_par(), scn, 0), scn, 0)
                }
                Src::Heap => {
                    let mut h: BinaryHeap<Tok> = BinaryHeap::new();
                    for t in toks {
                        h.push(t);
                    }
                    chain_s0(set_params(h.into_par(), scn, 0), scn, 0)
                }
                _ => {
                    let mut m: BTreeMap<u32, Tok> = BTreeMap::new();
                    for (i, t) in toks.into_iter().enumerate() {
                        m.insert(bmap_key(i), t);
                    }
                    let p = set_params(m.into_par(), scn, 0).map(mk_pair_src());
                    chain_s0(p, scn, 0)
                }
            }
        }
        Src::DequeRef | Src::ListRef | Src::BSetRef | Src::HeapRef | Src::BMapRef => {
            use std::collections::{BTreeMap, BTreeSet, BinaryHeap, LinkedList, VecDeque};
            if scn.ops.len() > 1 || is_with_index(scn) {
                return Value::Unsupported;
            }
            let toks = make_toks(&scn.vals);
            match scn.src {
                Src::DequeRef => {
                    // filled from both ends so that the ring buffer wraps (two non-empty slices)
                    let mut d: VecDeque<Tok> = VecDeque::with_capacity(toks.len().max(1));
                    let half = toks.len() / 2;
                    let mut front: Vec<Tok> = vec![];
                    for (i, t) in toks.into_iter().enumerate() {
                        if i < half {
                            front.push(t);
                        } else {
                            d.push_back(t);
                        }
                    }
                    while let Some(t) = front.pop() {
                        d.push_front(t);
                    }
                    let r = chain_s0(set_params(d.par(), scn, 0).cloned(), scn, 0);
                    drop(d);
                    r
                }
                Src::ListRef => {
                    let l: LinkedList<Tok> = toks.into_iter().collect();
                    let r = chain_s0(set_params(l.par(), scn, 0).cloned(), scn, 0);
                    drop(l);
                    r
                }
                Src::BSetRef => {
                    let mut b: BTreeSet<Tok> = BTreeSet::new();
                    for t in toks {
                        b.insert(t);
                    }
                    let r = chain_s0(set_params(b.par(), scn, 0).cloned(), scn, 0);
                    drop(b);
                    r
                }
                Src::HeapRef => {
                    let mut h: BinaryHeap<Tok> = BinaryHeap::new();
                    for t in toks {
                        h.push(t);
                    }
                    let r = chain_s0(set_params(h.par(), scn, 0).cloned(), scn, 0);
                    drop(h);
                    r
                }
                _ => {
                    let mut m: BTreeMap<u32, Tok> = BTreeMap::new();
                    for (i, t) in toks.into_iter().enumerate() {
                        m.insert(bmap_key(i), t);
                    }
                    let r = chain_s0(set_params(m.par(), scn, 0).map(mk_pair_ref_src()), scn, 0);
                    drop(m);
                    r
                }
            }
        }
    }
}
