//! Executes one scenario under the E1 scheduler and returns everything the oracles need.

use crate::closures;
use crate::pipeline::{run_pipeline, Value};
use crate::reference::{reference, Ref};
use crate::scenario::*;
use crate::sched::{self, Cfg, RunRecord};
use crate::tok::{self, Table};
use std::panic::{catch_unwind, AssertUnwindSafe};
use std::sync::Mutex;

pub static PANIC_MSGS: Mutex<Vec<String>> = Mutex::new(Vec::new());

/// Quiet panic hook: records messages instead of printing them (injected panics are expected events).
pub fn install_panic_hook() {
    std::panic::set_hook(Box::new(|info| {
        let msg = if let Some(s) = info.payload().downcast_ref::<&str>() {
            s.to_string()
        } else if let Some(s) = info.payload().downcast_ref::<String>() {
            s.clone()
        } else {
            "<non-string payload>".to_string()
        };
        let loc = info.location().map(|l| format!("{}:{}", l.file(), l.line())).unwrap_or_default();
        if std::env::var_os("PSIM_VERBOSE_PANICS").is_some() {
            eprintln!("[panic] {} at {}", msg, loc);
        }
        let mut g = PANIC_MSGS.lock().unwrap_or_else(|p| p.into_inner());
        if g.len() < 16 {
            g.push(format!("{} @ {}", msg, loc));
        }
    }));
}

#[derive(Debug)]
pub struct Exec {
    /// Ok(value) or Err(panic message) of the terminal call (including the construction of the chain)
    pub outcome: Result<Value, String>,
    pub rec: RunRecord,
    pub table: Table,
    pub fired: Vec<bool>,
    pub src_reentry: u64,
    pub panic_msgs: Vec<String>,
    pub budget: u64,
}

pub fn budget_for(scn: &Scenario, r: &Ref) -> u64 {
    let threads = scn.final_nt().map(|n| if n == 0 { scn.avail } else { n }).unwrap_or(scn.avail).max(1) as u64;
    let w = r.work + r.calls.len() as u64 + r.finals.len() as u64 * 4 + scn.vals.len() as u64 * 2;
    // generous: a correct run over a finite source needs about 2 * w + 8 * threads steps, whatever the schedule
    // (a thread that waits for the source's handle yields once per step of the others: up to a factor of the
    // thread count on top)
    let base = 20_000 + 40 * w * (1 + threads / 8) + 400 * threads;
    if scn.src == Src::IterEndless {
        // on an unbounded source the other threads keep pulling while the thread that holds the match waits
        // for its turn: the total depends on the share of steps the policy gives to that thread
        let slow = match scn.policy {
            crate::sched::Policy::Starve(_) => 1 + scn.starve_release / 8,
            _ => 1,
        };
        // capped: a run that needs more than this under a slow-but-fair schedule yields no verdict (the own-steps
        // criterion of the oracle decides whether an exhausted budget means anything), and a run that really does
        // not terminate costs seconds instead of minutes
        (base * (1 + threads / 4) * slow).min(400_000)
    } else {
        base
    }
}

/// Own steps after which a thread has certainly had the time to reach the first match by itself.
pub fn own_steps_bound(r: &Ref) -> u64 {
    500 + 4 * (r.work + r.calls.len() as u64)
}

pub fn cfg_for(scn: &Scenario, r: &Ref, replay: Option<Vec<u16>>, tolerant: bool) -> Cfg {
    Cfg {
        policy: scn.policy,
        noise: scn.noise,
        sched_seed: scn.sched_seed,
        budget: budget_for(scn, r),
        avail_par: Some(scn.avail.max(1)),
        skip_lag: true,
        replay,
        tolerant_replay: tolerant,
        est_steps: (2 * r.work + 8).max(16),
        starve_release: scn.starve_release,
        quiet: scn.quiet,
    }
}

pub fn exec_with(scn: &Scenario, cfg: Cfg) -> Exec {
    tok::table_reset();
    closures::rt_reset(&scn.faults);
    PANIC_MSGS.lock().unwrap_or_else(|p| p.into_inner()).clear();
    let budget = cfg.budget;
    sched::begin_run(cfg);
    let r = catch_unwind(AssertUnwindSafe(|| run_pipeline(scn)));
    let rec = sched::end_run();
    let table = tok::table_take();
    let panic_msgs = std::mem::take(&mut *PANIC_MSGS.lock().unwrap_or_else(|p| p.into_inner()));
    let outcome = match r {
        Ok(v) => Ok(v),
        Err(p) => Err(if let Some(s) = p.downcast_ref::<&str>() {
            s.to_string()
        } else if let Some(s) = p.downcast_ref::<String>() {
            s.clone()
        } else {
            "<non-string payload>".to_string()
        }),
    };
    Exec {
        outcome,
        rec,
        table,
        fired: closures::rt_fired(),
        src_reentry: closures::SRC_REENTRY.load(std::sync::atomic::Ordering::SeqCst),
        panic_msgs,
        budget,
    }
}

pub fn exec(scn: &Scenario, replay: Option<Vec<u16>>, tolerant: bool) -> (Ref, Exec) {
    let r = reference(scn);
    let cfg = cfg_for(scn, &r, replay, tolerant);
    let e = exec_with(scn, cfg);
    (r, e)
}

/// FNV-1a style hash of the event log: the identity of an execution.
pub fn log_hash(rec: &RunRecord) -> u64 {
    let mut h: u64 = 0xcbf29ce484222325;
    let mut feed = |x: u64| {
        for i in 0..8 {
            h ^= (x >> (i * 8)) & 0xff;
            h = h.wrapping_mul(0x100000001b3);
        }
    };
    for e in &rec.log {
        feed(e.slot as u64);
        feed(e.kind as u64);
        feed(e.stage as u64);
        feed(e.a);
        feed(e.b);
    }
    for d in &rec.decisions {
        feed(*d as u64);
    }
    h
}
