//! Minimisation of a failing (scenario, schedule): first the workload (fewer faults, fewer stages, fewer
//! elements, simpler parameters), re-deriving the schedule from the same schedule stream, then the schedule
//! itself (decisions replaced by "stay on the running slot"). A candidate is kept only while the same
//! violation class (finding key) persists.

use crate::exec::{exec, log_hash};
use crate::oracle::{check, Verdict};
use crate::scenario::*;
use crate::sched::Policy;

pub struct Minimised {
    pub scenario: Scenario,
    pub decisions: Vec<u16>,
    pub hash: u64,
    pub runs: usize,
    pub detail: String,
    pub reproduced: bool,
}

struct Ctx<'a> {
    prop: &'a str,
    key: &'a str,
    runs: usize,
    budget: usize,
    deadline: std::time::Instant,
}

impl<'a> Ctx<'a> {
    /// Some((decisions, hash, detail)) if the scenario (with an optional decision list) still fails the same way
    fn fails(&mut self, scn: &Scenario, dec: Option<Vec<u16>>, tolerant: bool) -> Option<(Vec<u16>, u64, String)> {
        if self.runs >= self.budget || std::time::Instant::now() > self.deadline {
            return None;
        }
        self.runs += 1;
        let (rf, ex) = exec(scn, dec, tolerant);
        match check(self.prop, scn, &rf, &ex) {
            Verdict::Violation(fs) => fs
                .iter()
                .find(|f| f.key == self.key)
                .map(|f| (ex.rec.decisions.clone(), log_hash(&ex.rec), f.detail.clone())),
            _ => None,
        }
    }

    /// tries the candidate under its own schedule seed and two neighbouring ones
    fn fails_any(&mut self, scn: &Scenario) -> Option<(Scenario, Vec<u16>, u64, String)> {
        for k in 0..3u64 {
            let mut c = scn.clone();
            c.sched_seed = scn.sched_seed.wrapping_add(k);
            if let Some((d, h, det)) = self.fails(&c, None, false) {
                return Some((c, d, h, det));
            }
        }
        None
    }
}

fn drop_op(scn: &Scenario, i: usize) -> Scenario {
    let mut c = scn.clone();
    c.ops.remove(i);
    let fix = |p: u8| if p as usize > i { p - 1 } else { p };
    for x in c.nt.iter_mut() {
        x.0 = fix(x.0);
    }
    for x in c.cs.iter_mut() {
        x.0 = fix(x.0);
    }
    // stages after i are renumbered: faults on them move down
    for f in c.faults.iter_mut() {
        let s = f.stage;
        let base = if s > INNER { s - INNER } else { s };
        if (1..=3).contains(&base) && base as usize > i + 1 {
            f.stage = s - 1;
        }
    }
    c
}

fn candidates(scn: &Scenario) -> Vec<Scenario> {
    let mut v = vec![];
    // fewer faults
    if scn.faults.len() > 1 {
        for i in 0..scn.faults.len() {
            let mut c = scn.clone();
            c.faults.remove(i);
            v.push(c);
        }
    }
    // fewer stages (not for the with_index terminals, whose shape is fixed)
    if !matches!(scn.term, Term::FindWithIndex(_) | Term::FirstWithIndex) {
        for i in 0..scn.ops.len() {
            v.push(drop_op(scn, i));
        }
    }
    // fewer elements
    let n = scn.vals.len();
    if n > 1 {
        let mut c = scn.clone();
        c.vals.truncate(n / 2);
        v.push(c);
        let mut c = scn.clone();
        c.vals.drain(0..n / 2);
        v.push(c);
        let mut c = scn.clone();
        c.vals.truncate(n - 1);
        v.push(c);
        if n <= 12 {
            for i in 0..n - 1 {
                let mut c = scn.clone();
                c.vals.remove(i);
                v.push(c);
            }
        }
    }
    // simpler parameters
    for i in 0..scn.cs.len() {
        let mut c = scn.clone();
        c.cs.remove(i);
        v.push(c);
    }
    if scn.nt.len() > 1 {
        for i in 0..scn.nt.len() {
            let mut c = scn.clone();
            c.nt.remove(i);
            v.push(c);
        }
    }
    for i in 0..scn.nt.len() {
        if scn.nt[i].1 > 2 || scn.nt[i].1 == 0 {
            let mut c = scn.clone();
            c.nt[i].1 = 2;
            v.push(c);
            let mut c = scn.clone();
            c.nt[i].1 = 3;
            v.push(c);
        }
        if scn.nt[i].0 != 0 {
            let mut c = scn.clone();
            c.nt[i].0 = 0;
            v.push(c);
        }
    }
    for i in 0..scn.cs.len() {
        let simpler = match scn.cs[i].1 {
            Chunk::Exact(c) if c > 2 => Some(Chunk::Exact(2)),
            Chunk::Min(c) if c > 2 => Some(Chunk::Min(2)),
            Chunk::Raw(c) if c > 2 => Some(Chunk::Raw(2)),
            _ => None,
        };
        if let Some(s) = simpler {
            let mut c = scn.clone();
            c.cs[i].1 = s;
            v.push(c);
        }
    }
    if scn.policy != Policy::Uniform || scn.noise != 0 {
        let mut c = scn.clone();
        c.policy = Policy::Uniform;
        c.noise = 0;
        c.starve_release = 0;
        v.push(c);
    }
    if scn.avail != 4 && scn.avail != 8 {
        let mut c = scn.clone();
        c.avail = if scn.avail > 8 { 8 } else { 4 };
        v.push(c);
    }
    if scn.vals.iter().any(|x| *x != 0) && scn.vals.len() <= 64 {
        let mut c = scn.clone();
        for x in c.vals.iter_mut() {
            *x = 0;
        }
        v.push(c);
    }
    if let Term::CollectInto(t) = &scn.term {
        if t.prefix > 1 {
            let mut c = scn.clone();
            c.term = Term::CollectInto(Target { prefix: 1, ..*t });
            v.push(c);
        }
        if t.spare > 0 {
            let mut c = scn.clone();
            c.term = Term::CollectInto(Target { spare: 0, ..*t });
            v.push(c);
        }
    }
    // a placed predicate with fewer matches
    let shrink_ids = |p: &Pred| -> Vec<Pred> {
        match p {
            Pred::Ids(ids) if ids.len() > 1 => (0..ids.len())
                .map(|i| {
                    let mut x = ids.clone();
                    x.remove(i);
                    Pred::Ids(x)
                })
                .collect(),
            _ => vec![],
        }
    };
    match &scn.term {
        Term::Find(p) => {
            for q in shrink_ids(p) {
                let mut c = scn.clone();
                c.term = Term::Find(q);
                v.push(c);
            }
        }
        Term::FindWithIndex(p) => {
            for q in shrink_ids(p) {
                let mut c = scn.clone();
                c.term = Term::FindWithIndex(q);
                v.push(c);
            }
        }
        Term::Any(p) => {
            for q in shrink_ids(p) {
                let mut c = scn.clone();
                c.term = Term::Any(q);
                v.push(c);
            }
        }
        _ => {}
    }
    v
}

pub fn minimise(prop: &str, scn: &Scenario, key: &str, budget: usize, seconds: f64) -> Minimised {
    let mut ctx = Ctx {
        prop,
        key,
        runs: 0,
        budget,
        deadline: std::time::Instant::now() + std::time::Duration::from_secs_f64(seconds),
    };
    let mut cur = scn.clone();
    let (mut dec, mut hash, mut detail, reproduced) = match ctx.fails(&cur, None, false) {
        Some((d, h, det)) => (d, h, det, true),
        None => (vec![], 0, String::new(), false),
    };
    if !reproduced {
        return Minimised {
            scenario: cur,
            decisions: dec,
            hash,
            runs: ctx.runs,
            detail,
            reproduced,
        };
    }
    // 1. workload
    let mut progress = true;
    let phase1_end = std::time::Instant::now() + std::time::Duration::from_secs_f64(seconds * 0.6);
    while progress && ctx.runs < ctx.budget * 3 / 4 && std::time::Instant::now() < phase1_end {
        progress = false;
        for c in candidates(&cur) {
            if c == cur {
                continue;
            }
            if let Some((c2, d, h, det)) = ctx.fails_any(&c) {
                cur = c2;
                dec = d;
                hash = h;
                detail = det;
                progress = true;
                break;
            }
        }
    }
    // 2. schedule: from the back, make a decision "stay" (repeat the previous decision); then drop the tail
    let mut i = dec.len();
    while i > 1 && ctx.runs < ctx.budget {
        i -= 1;
        if dec[i] == dec[i - 1] {
            continue;
        }
        let mut cand = dec.clone();
        cand[i] = cand[i - 1];
        if let Some((d, h, det)) = ctx.fails(&cur, Some(cand), true) {
            // the run records the decisions it actually took: these replay exactly
            dec = d;
            hash = h;
            detail = det;
            i = i.min(dec.len());
        }
    }
    // final confirmation: exact replay of the recorded list
    ctx.budget = ctx.runs + 1;
    ctx.deadline = std::time::Instant::now() + std::time::Duration::from_secs(120);
    let ok = match ctx.fails(&cur, Some(dec.clone()), false) {
        Some((d, h, _)) => d == dec && h == hash,
        None => {
            // budget exhausted counts as unconfirmed
            false
        }
    };
    Minimised {
        scenario: cur,
        decisions: dec,
        hash,
        runs: ctx.runs,
        detail,
        reproduced: ok,
    }
}
