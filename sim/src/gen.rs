//! Seeded scenario generator. Every choice derives from one integer; workload and schedule use separate
//! streams so that shrinking the workload does not shift the schedule stream.

use crate::reference::reference;
use crate::rng::{mix, Rng};
use crate::scenario::*;
use crate::sched::Policy;

fn gen_len(r: &mut Rng, max: usize) -> usize {
    let x = r.below(100);
    let n = if x < 8 {
        r.range(0, 2)
    } else if x < 40 {
        r.range(3, 12)
    } else if x < 75 {
        r.range(13, 40)
    } else if x < 95 {
        r.range(41, 64)
    } else {
        r.range(65, 300)
    };
    n.min(max)
}

fn gen_vals(r: &mut Rng, n: usize) -> Vec<i64> {
    (0..n).map(|_| r.range(0, 12) as i64 - 4).collect()
}

fn gen_op(r: &mut Rng, kind: usize) -> Op {
    match kind {
        0 => Op::Map {
            mul: *r.pick(&[1, 2, 3, -1]),
            add: r.range(0, 6) as i64 - 3,
        },
        1 => {
            let m = r.range(2, 5) as u64;
            let t = match r.below(10) {
                0 => 0,
                1 => m,
                _ => r.range(1, m as usize - 1) as u64,
            };
            Op::Filter { m, t, salt: r.below(1000) as u64 }
        }
        2 => Op::FlatMap {
            salt: r.below(1000) as u64,
            maxk: r.range(1, 3) as u8,
            lazy: r.chance(1, 2),
        },
        _ => {
            let m = r.range(2, 5) as u64;
            let t = match r.below(10) {
                0 => 0,
                1 => m,
                _ => r.range(1, m as usize - 1) as u64,
            };
            Op::FilterMap {
                m,
                t,
                salt: r.below(1000) as u64,
                add: r.range(0, 4) as i64 - 2,
                res: r.chance(3, 10),
            }
        }
    }
}

fn gen_ops(r: &mut Rng, max_depth: usize) -> Vec<Op> {
    let d = match r.below(100) {
        0..=11 => 0,
        12..=39 => 1,
        40..=71 => 2,
        _ => 3,
    }
    .min(max_depth);
    (0..d).map(|_| {
        let k = r.below(4);
        gen_op(r, k)
    }).collect()
}

const NT_CHOICES: [usize; 14] = [0, 1, 2, 2, 3, 3, 4, 4, 5, 6, 8, 9, 17, 64];

fn gen_chunk(r: &mut Rng, len: usize) -> Chunk {
    let cands = [1usize, 1, 2, 2, 3, 4, 5, 7, 8, 16, len.saturating_sub(1).max(1), len.max(1), len + 1, 1000];
    let c = *r.pick(&cands);
    match r.below(10) {
        0 => Chunk::Auto,
        1 => Chunk::Raw(0),
        2 | 3 => Chunk::Raw(c),
        4..=6 => Chunk::Exact(c),
        _ => Chunk::Min(c),
    }
}

fn gen_params(r: &mut Rng, scn: &mut Scenario) {
    let npos = scn.ops.len();
    match r.below(100) {
        0..=11 => {}
        12..=79 => scn.nt.push((0, *r.pick(&NT_CHOICES))),
        80..=91 => scn.nt.push((r.range(0, npos) as u8, *r.pick(&NT_CHOICES))),
        _ => {
            scn.nt.push((0, *r.pick(&NT_CHOICES)));
            scn.nt.push((r.range(0, npos) as u8, *r.pick(&NT_CHOICES)));
        }
    }
    let len = scn.vals.len();
    match r.below(100) {
        0..=21 => {}
        22..=79 => scn.cs.push((0, gen_chunk(r, len))),
        80..=91 => scn.cs.push((r.range(0, npos) as u8, gen_chunk(r, len))),
        _ => {
            scn.cs.push((0, gen_chunk(r, len)));
            scn.cs.push((r.range(0, npos) as u8, gen_chunk(r, len)));
        }
    }
}

pub fn gen_policy(r: &mut Rng) -> (Policy, u8, u64) {
    let p = match r.below(100) {
        0..=21 => Policy::Uniform,
        22..=29 => Policy::Sticky(30),
        30..=39 => Policy::Sticky(60),
        40..=49 => Policy::Sticky(90),
        50..=63 => Policy::Pct(r.range(1, 3) as u8),
        64..=71 => Policy::SpawnerFirst,
        72..=79 => Policy::SpawnerLast,
        80..=84 => Policy::NewestFirst,
        85..=87 => Policy::GrowLate(*r.pick(&[8u8, 16, 32, 64, 128])),
        _ => Policy::Starve(match r.below(6) {
            0 => 255,
            k => (k - 1) as u8,
        }),
    };
    let noise = *r.pick(&[0u8, 0, 5, 20]);
    let release = if matches!(p, Policy::Starve(_)) { *r.pick(&[0u64, 0, 50, 500]) } else { 0 };
    (p, noise, release)
}

fn gen_avail(r: &mut Rng) -> usize {
    match r.below(10) {
        0 => 1,
        1 => 2,
        2 => 3,
        3..=5 => r.range(4, 8),
        6..=8 => r.range(9, 16),
        _ => r.range(17, 32),
    }
}

fn gen_red(r: &mut Rng) -> RedOp {
    *r.pick(&[RedOp::Add, RedOp::Add, RedOp::Xor, RedOp::MinVal, RedOp::MaxVal])
}

/// A predicate with matches placed by the generator: 0, 1 or several matching elements, near each other or
/// far apart, early or late.
fn gen_pred(r: &mut Rng, scn: &Scenario) -> Pred {
    if r.chance(1, 5) {
        let m = r.range(2, 6) as u64;
        return Pred::Hash {
            m,
            t: r.range(0, m as usize) as u64,
            salt: r.below(1000) as u64,
        };
    }
    let mut tmp = scn.clone();
    tmp.term = Term::Count;
    let rf = reference(&tmp);
    let n = rf.finals.len();
    if n == 0 {
        return Pred::Ids(vec![]);
    }
    let mut ids = vec![];
    match r.below(10) {
        0 => {}
        1..=3 => ids.push(rf.finals[r.below(n)].1.id),
        4..=6 => {
            // two matches, often adjacent
            let a = r.below(n);
            let b = if r.chance(1, 2) { (a + 1 + r.below(3)).min(n - 1) } else { r.below(n) };
            ids.push(rf.finals[a].1.id);
            ids.push(rf.finals[b].1.id);
        }
        _ => {
            let k = r.range(2, 6);
            for _ in 0..k {
                ids.push(rf.finals[r.below(n)].1.id);
            }
        }
    }
    ids.sort();
    ids.dedup();
    Pred::Ids(ids)
}

/// sources of the value properties: one scenario in seven uses a std collection (by value or by reference)
pub fn with_collections(r: &mut Rng) -> Vec<Src> {
    if r.chance(1, 7) {
        Src::COLLECTIONS.to_vec()
    } else {
        Src::ALL_FINITE.to_vec()
    }
}

fn base(seed: u64, r: &mut Rng, max_len: usize, max_depth: usize, srcs: &[Src]) -> Scenario {
    let len = gen_len(r, max_len);
    let vals = gen_vals(r, len);
    let src0 = *r.pick(srcs);
    // each std collection is its own iterator type: chains of at most one stage are instantiated for them
    let max_depth = if src0.is_collection() { max_depth.min(1) } else { max_depth };
    let ops = gen_ops(r, max_depth);
    let (policy, noise, release) = gen_policy(r);
    let mut scn = Scenario {
        seed,
        src: src0,
        vals,
        ops,
        nt: vec![],
        cs: vec![],
        term: Term::Count,
        policy,
        noise,
        avail: gen_avail(r),
        sched_seed: mix(seed, 0x5C4E, 2),
        faults: vec![],
        starve_release: release,
        quiet: 0,
        pre: 0,
    };
    gen_params(r, &mut scn);
    // one scenario in twelve is set up so that the runner hands different chunk sizes to different workers:
    // a source of known length, ChunkSize::Min(small) or Auto, six or more threads, and a schedule in which the
    // first workers make progress during the spawner's lag and the late workers (with their grown chunks) go first
    if r.chance(1, 12) && !scn.src.is_collection() && srcs.iter().any(|s| s.known_len()) {
        if !scn.src.known_len() {
            scn.src = *r.pick(&[Src::Vec, Src::SliceCloned, Src::Range, Src::IterExact]);
        }
        scn.nt = vec![(0, *r.pick(&[6usize, 8, 9, 12, 16, 0]))];
        scn.avail = r.range(8, 32);
        scn.cs = if r.chance(1, 4) { vec![] } else { vec![(0, Chunk::Min(r.range(1, 4)))] };
        if scn.vals.len() < 40 && max_len >= 160 {
            let n = r.range(40, 160);
            scn.vals = gen_vals(r, n);
        }
        scn.policy = Policy::GrowLate(*r.pick(&[8u8, 16, 32, 64, 128]));
        scn.noise = *r.pick(&[0u8, 5, 20]);
        scn.starve_release = 0;
    }
    scn
}

fn gen_target(r: &mut Rng, len: usize, empty: bool) -> Target {
    let kind = *r.pick(&[
        TargetKind::Vec,
        TargetKind::Vec,
        TargetKind::SplitDoubling,
        TargetKind::SplitLinear,
        TargetKind::Fixed,
        TargetKind::SplitNew,
        TargetKind::SplitNew,
        TargetKind::SplitLinearSmall,
    ]);
    // prefixes at and around the capacity boundaries of the growth strategies
    let prefix = if empty {
        0
    } else {
        match kind {
            TargetKind::SplitNew => *r.pick(&[0usize, 1, 3, 4, 5, 11, 12, 13, 27, 28, 29, 59, 60, 61, len + 3]),
            TargetKind::SplitLinearSmall => *r.pick(&[0usize, 1, 15, 16, 17, 31, 32, 33, 47, 48, 63, 64, 65, len + 3]),
            _ => *r.pick(&[0usize, 1, 1, 5, 5, len + 3, 2, 4, 8, 16]),
        }
    };
    let spare = match r.below(4) {
        0 => 0,
        1 => len,
        2 => len * 3 + 4,
        _ => r.below(8),
    };
    Target { kind, prefix, spare }
}

/// `collect_into(SplitVec<Linear>)` over a map-only pipeline of unknown length reserves 2^32 / fragment-size
/// fragments: with 16-element fragments that is gigabytes per run. A cost, not a property; avoided.
fn avoid_huge_reservation(scn: &mut Scenario) {
    if let Term::CollectInto(t) = &scn.term {
        let maponly = scn.ops.iter().all(|o| matches!(o, Op::Map { .. }));
        if t.kind == TargetKind::SplitLinearSmall && !scn.src.known_len() && maponly {
            scn.term = Term::CollectInto(Target { kind: TargetKind::SplitNew, ..*t });
        }
    }
}

/// restrict the chain so that the terminal is instantiated for its shape
fn fit_depth(scn: &mut Scenario) {
    avoid_huge_reservation(scn);
    if !scn.term.is_core() && scn.ops.len() > 1 {
        scn.ops.truncate(1);
        scn.nt.retain(|x| x.0 as usize <= 1);
        scn.cs.retain(|x| x.0 as usize <= 1);
    }
}

fn gen_with_index(r: &mut Rng, scn: &mut Scenario) {
    // shapes "", "m", "f", "mf"; Range supports "" and "f"; SliceCloned and the std collections none
    if scn.src == Src::SliceCloned || scn.src.is_collection() {
        scn.src = Src::Vec;
    }
    let shapes: &[&str] = if scn.src == Src::Range { &["", "f"] } else { &["", "m", "f", "mf"] };
    let sh = *r.pick(shapes);
    scn.ops = sh
        .chars()
        .map(|c| gen_op(r, if c == 'm' { 0 } else { 1 }))
        .collect();
    let n = scn.ops.len();
    scn.nt.retain(|x| x.0 as usize <= n);
    scn.cs.retain(|x| x.0 as usize <= n);
    scn.term = if r.chance(1, 4) { Term::FirstWithIndex } else { Term::FindWithIndex(gen_pred(r, scn)) };
}

pub fn generate(prop: &str, seed: u64) -> Scenario {
    let mut scn = generate_inner(prop, seed);
    // astronomically large chunk sizes (the position counter of an indexable source must not wrap, products with
    // the thread count must not overflow): only where a pull allocates nothing. Iterator-backed sources buffer a
    // whole chunk (2^32 elements: the process aborts) and overflow `begin + c` inside the dependency for c near
    // usize::MAX (known finding huge-chunk/iterator-source, probed by C15 with one fixed scenario)
    if matches!(prop, "C01" | "C02" | "C03" | "C04" | "C05" | "C06" | "C07" | "C13" | "C14") && matches!(scn.src, Src::Vec | Src::SliceCloned | Src::Range) {
        let mut r = Rng::stream(seed, 0xB16C);
        if r.chance(1, 30) {
            let c = *r.pick(&[1usize << 20, (1 << 32) + 1, 1 << 60, 1 << 61, 1 << 62, 1 << 63, usize::MAX]);
            scn.cs = vec![(0, if r.chance(1, 2) { Chunk::Exact(c) } else { Chunk::Min(c) })];
        }
    }
    // one scenario in sixteen starts from a partially consumed concurrent iterator
    if matches!(prop, "C01" | "C02" | "C03" | "C04" | "C07") && scn.src != Src::IterEndless && !scn.src.is_collection() {
        let mut r = Rng::stream(seed, 0x9AE);
        if r.chance(1, 16) && !scn.vals.is_empty() {
            scn.pre = r.range(1, scn.vals.len().min(6));
            // placed predicates refer to ids that may have been consumed: place them again
            refresh_pred(&mut r, &mut scn);
            if let Term::FindWithIndex(_) = scn.term {
                scn.term = Term::FindWithIndex(gen_pred(&mut r, &scn));
            }
        }
    }
    // one scenario in 120 of the value properties is large (1.1 k .. 6 k elements, chunk sizes beyond 1024), with
    // closures that are yield points only every 2^k-th event; its verdict needs the returned value only
    if matches!(prop, "C01" | "C02" | "C03" | "C04" | "C07" | "C13") && !scn.src.is_collection() && scn.src != Src::IterEndless {
        let mut r = Rng::stream(seed, 0x1A46E);
        let ok_term = !matches!(scn.term, Term::ForEach);
        // (C13 looks at the merge and drop paths of long results: three times as often, mostly collecting)
        let one_in = if prop == "C13" { 40 } else { 120 };
        if r.chance(1, one_in) && ok_term && scn.pre == 0 {
            let n = r.range(1100, 6000);
            scn.vals = spec_vals(n, r.below(64) as u64);
            scn.quiet = r.range(4, 6) as u8;
            if scn.src == Src::SliceCloned {
                scn.src = Src::Vec;
            }
            if r.chance(2, 3) {
                let c = *r.pick(&[16usize, 64, 1025, 1500, 2048, 3000, 4096]);
                scn.cs = vec![(0, if r.chance(1, 2) { Chunk::Exact(c) } else { Chunk::Min(c) })];
            }
            // long runs are where a stalled worker matters: one thread holds an early chunk while the others
            // take the rest
            match r.below(10) {
                0..=3 => {
                    scn.policy = Policy::Starve(r.below(3) as u8);
                    scn.starve_release = 0;
                    scn.noise = 0;
                }
                4..=5 => {
                    scn.policy = Policy::Sticky(90);
                    scn.noise = 0;
                }
                _ => {}
            }
            if prop == "C13" && r.chance(2, 3) {
                scn.term = match r.below(3) {
                    0 => Term::CollectVec,
                    1 => Term::CollectInto(gen_target(&mut r, 8, false)),
                    _ => Term::CollectX,
                };
            }
            match &scn.term {
                Term::Find(_) | Term::Any(_) | Term::All(_) | Term::FindWithIndex(_) => {
                    place_far_matches(&mut r, &mut scn);
                }
                _ => {}
            }
        }
    }
    scn
}

/// two or three matches far apart (different chunks, the first one deep inside its chunk) for the find family
pub fn place_far_matches(r: &mut Rng, scn: &mut Scenario) {
    let mut tmp = scn.clone();
    tmp.term = Term::Count;
    let rf = reference(&tmp);
    let m = rf.finals.len();
    let mut ids = vec![];
    if m > 0 {
        let a = r.below(m);
        ids.push(rf.finals[a].1.id);
        if r.chance(3, 4) {
            ids.push(rf.finals[(a + m / 3 + r.below(m / 3 + 1)).min(m - 1)].1.id);
        }
        if r.chance(1, 3) {
            ids.push(rf.finals[r.below(m)].1.id);
        }
    }
    ids.sort();
    ids.dedup();
    let p = Pred::Ids(ids);
    scn.term = match &scn.term {
        Term::Find(_) => Term::Find(p),
        Term::Any(_) => Term::Any(p),
        Term::FindWithIndex(_) => Term::FindWithIndex(p),
        Term::All(_) => {
            // all: everything but the chosen ids passes
            let keep: Vec<u64> = match &p {
                Pred::Ids(x) => x.clone(),
                _ => vec![],
            };
            let mut all: Vec<u64> = rf.finals.iter().map(|f| f.1.id).filter(|id| !keep.contains(id)).collect();
            all.sort();
            Term::All(Pred::Ids(all))
        }
        t => t.clone(),
    };
}

fn generate_inner(prop: &str, seed: u64) -> Scenario {
    let mut r = Rng::stream(seed, 0x3017);
    let r = &mut r;
    match prop {
        "C01" => {
            let srcs = with_collections(r);
            let mut scn = base(seed, r, 300, 3, &srcs);
            scn.term = match r.below(10) {
                0..=3 => Term::CollectVec,
                4..=5 => Term::Collect,
                _ => Term::CollectInto(gen_target(r, scn.vals.len(), true)),
            };
            fit_depth(&mut scn);
            scn
        }
        "C02" => {
            let srcs = with_collections(r);
            let mut scn = base(seed, r, 300, 3, &srcs);
            match r.below(10) {
                0..=3 => scn.term = Term::Find(gen_pred(r, &scn)),
                4 => scn.term = Term::First,
                5 => {
                    scn.term = Term::Any(Pred::Ids(vec![]));
                    fit_depth(&mut scn);
                    scn.term = Term::Any(gen_pred(r, &scn));
                }
                6 => {
                    scn.term = Term::All(Pred::Ids(vec![]));
                    fit_depth(&mut scn);
                    // `all` stops at the first element that fails: make most elements pass
                    let mut tmp = scn.clone();
                    tmp.term = Term::Count;
                    let rf = reference(&tmp);
                    let mut ids: Vec<u64> = rf.finals.iter().map(|x| x.1.id).collect();
                    let holes = r.below(3);
                    for _ in 0..holes {
                        if !ids.is_empty() {
                            let k = r.below(ids.len());
                            ids.remove(k);
                        }
                    }
                    ids.sort();
                    scn.term = Term::All(Pred::Ids(ids));
                }
                _ => gen_with_index(r, &mut scn),
            }
            scn
        }
        "C03" => {
            let srcs = with_collections(r);
            let mut scn = base(seed, r, 300, 3, &srcs);
            scn.term = match r.below(14) {
                0..=4 => Term::Reduce(gen_red(r)),
                5 => Term::Fold(gen_red(r)),
                6 => Term::Sum,
                7 => Term::Min,
                8 => Term::Max,
                9 => Term::MinBy(r.range(1, 5) as u8),
                10 => Term::MaxBy(r.range(1, 5) as u8),
                11 => Term::MinByKey(r.range(1, 5) as u8),
                12 => Term::MaxByKey(r.range(1, 5) as u8),
                _ => Term::Reduce(RedOp::Xor),
            };
            fit_depth(&mut scn);
            scn
        }
        "C04" => {
            let srcs = with_collections(r);
            let mut scn = base(seed, r, 300, 3, &srcs);
            scn.term = if r.chance(1, 2) { Term::Count } else { Term::ForEach };
            scn
        }
        "C06" => {
            let mut scn = base(seed, r, 120, 3, &Src::ALL_FINITE);
            // the pair (map-only chain, source of unknown length) is asked for explicitly
            if r.chance(1, 4) {
                scn.src = Src::IterUnknown;
                let d = r.range(0, 2);
                scn.ops = (0..d).map(|_| gen_op(r, 0)).collect();
                scn.nt.retain(|x| x.0 as usize <= d);
                scn.cs.retain(|x| x.0 as usize <= d);
            }
            scn.term = Term::CollectInto(gen_target(r, scn.vals.len(), false));
            // short inputs: a single write, an empty write
            if r.chance(1, 5) {
                let k = r.range(0, 2);
                scn.vals.truncate(k);
            }
            avoid_huge_reservation(&mut scn);
            scn
        }
        "C07" => {
            let srcs = with_collections(r);
            let mut scn = base(seed, r, 300, 3, &srcs);
            scn.term = if r.chance(1, 6) { Term::CollectXUnit } else { Term::CollectX };
            scn
        }
        "C05" => {
            // iterator sources twice as often: the source clause only speaks about them
            let srcs: Vec<Src> = if r.chance(1, 8) {
                Src::COLLECTIONS.to_vec()
            } else {
                vec![Src::Vec, Src::SliceCloned, Src::Range, Src::IterExact, Src::IterUnknown, Src::IterExact, Src::IterUnknown]
            };
            let mut scn = base(seed, r, 200, 3, &srcs);
            scn.term = gen_any_term(r, &scn);
            fit_depth(&mut scn);
            refresh_pred(r, &mut scn);
            scn
        }
        "C08" => {
            let mut scn = base(seed, r, 120, 3, &Src::ALL_FINITE);
            // Max(n) set on the source and never changed afterwards
            scn.nt.clear();
            let n = match r.below(10) {
                0 | 1 => 1,
                2..=6 => r.range(2, 6),
                7 => r.range(7, 9),
                8 => 17,
                _ => 64,
            };
            scn.nt.push((0, n));
            if r.chance(1, 3) {
                // input shorter than n
                let k = r.range(0, n.min(12));
                scn.vals.truncate(k);
            }
            scn.term = gen_any_term(r, &scn);
            fit_depth(&mut scn);
            refresh_pred(r, &mut scn);
            scn
        }
        "C10" => gen_c10(seed, r),
        "C11" => {
            let srcs = with_collections(r);
            let mut scn = base(seed, r, 200, 3, &srcs);
            scn.cs.clear();
            let c = match r.below(10) {
                0..=6 => r.range(1, 8),
                7 | 8 => r.range(9, 16),
                _ => scn.vals.len() + r.below(3),
            }
            .max(1);
            scn.cs.push((0, if r.chance(1, 3) { Chunk::Raw(c) } else { Chunk::Exact(c) }));
            // many threads, so that workers are spawned after one and two lag periods
            if r.chance(1, 2) {
                scn.nt.clear();
                scn.nt.push((0, *r.pick(&[0usize, 5, 6, 8, 9, 12, 16, 17])));
                scn.avail = r.range(8, 32);
            }
            scn.term = gen_any_term(r, &scn);
            fit_depth(&mut scn);
            refresh_pred(r, &mut scn);
            scn
        }
        "C13" => {
            let srcs = with_collections(r);
            let mut scn = base(seed, r, 200, 3, &srcs);
            scn.term = gen_any_term(r, &scn);
            // find on a prefix: the untouched remainder must still be dropped
            if r.chance(1, 4) {
                scn.term = Term::Find(Pred::Ids(vec![]));
                refresh_pred(r, &mut scn);
            }
            fit_depth(&mut scn);
            refresh_pred(r, &mut scn);
            scn
        }
        "C14" => gen_c14(seed, r),
        "C14enum" => gen_c14_enum(seed),
        "C13miri" => {
            // the same family as C13, small enough for the Miri interpreter
            let mut scn = base(seed, r, 10, 3, &Src::ALL_FINITE);
            miri_size(r, &mut scn);
            scn.term = gen_any_term(r, &scn);
            if r.chance(1, 4) {
                scn.term = Term::Find(Pred::Ids(vec![]));
            }
            fit_depth(&mut scn);
            refresh_pred(r, &mut scn);
            scn
        }
        "C14miri" => {
            let mut scn = base(seed, r, 10, 3, &Src::ALL_FINITE);
            miri_size(r, &mut scn);
            scn.term = gen_any_term(r, &scn);
            fit_depth(&mut scn);
            refresh_pred(r, &mut scn);
            let rf = reference(&scn);
            let sites = all_fault_sites(&scn, &rf);
            if !sites.is_empty() {
                scn.faults.push(sites[r.below(sites.len())]);
                if r.chance(1, 3) {
                    let f2 = sites[r.below(sites.len())];
                    if f2 != scn.faults[0] {
                        scn.faults.push(f2);
                    }
                }
            }
            scn
        }
        "C15" => gen_c15(seed, r, false),
        "C15huge" => gen_c15(seed, r, true),
        // the one fixed scenario of known finding huge-chunk/iterator-source (whatever the seed)
        "C15probe" => Scenario::decode("seed=1;src=iterunknown;vals=1,2,3,4,5;ops=map:2:-1;nt=2@0;cs=min18446744073709551615@0;term=collect_vec;policy=spawnerlast;noise=0;avail=4;sched=77;release=0;quiet=0;faults=").expect("probe scenario"),
        _ => {
            let mut scn = base(seed, r, 300, 3, &Src::ALL_FINITE);
            scn.term = gen_any_term(r, &scn);
            fit_depth(&mut scn);
            refresh_pred(r, &mut scn);
            scn
        }
    }
}

/// after the chain has been cut, a placed predicate refers to ids that no longer exist: place it again
pub fn refresh_pred(r: &mut Rng, scn: &mut Scenario) {
    let fresh = match &scn.term {
        Term::Find(Pred::Ids(_)) => Some(Term::Find(gen_pred(r, scn))),
        Term::Any(Pred::Ids(_)) => Some(Term::Any(gen_pred(r, scn))),
        Term::All(Pred::Ids(_)) => Some(Term::All(gen_pred(r, scn))),
        _ => None,
    };
    if let Some(t) = fresh {
        scn.term = t;
    }
}

pub fn gen_any_term(r: &mut Rng, scn: &Scenario) -> Term {
    match r.below(22) {
        0 | 1 => Term::CollectVec,
        2 => Term::Collect,
        3 | 4 => Term::CollectInto(gen_target(r, scn.vals.len(), false)),
        5 => Term::CollectX,
        6 => Term::Count,
        7 => Term::ForEach,
        8 | 9 => Term::Reduce(gen_red(r)),
        10 => Term::Fold(gen_red(r)),
        11 => Term::Sum,
        12 => Term::Min,
        13 => Term::Max,
        14 => Term::MinBy(r.range(1, 5) as u8),
        15 => Term::MaxByKey(r.range(1, 5) as u8),
        16 | 17 => Term::Find(gen_pred(r, scn)),
        18 => Term::First,
        19 => Term::Any(gen_pred(r, scn)),
        20 => Term::All(gen_pred(r, scn)),
        _ => Term::MinByKey(r.range(1, 5) as u8),
    }
}

/// small thread counts and chunks: every step costs milliseconds under the interpreter
fn miri_size(r: &mut Rng, scn: &mut Scenario) {
    for x in scn.nt.iter_mut() {
        if x.1 == 0 || x.1 > 3 {
            x.1 = r.range(2, 3);
        }
    }
    if scn.nt.is_empty() {
        scn.nt.push((0, r.range(2, 3)));
    }
    scn.avail = r.range(2, 4);
    for c in scn.cs.iter_mut() {
        c.1 = match c.1 {
            Chunk::Raw(x) => Chunk::Raw(x.min(4)),
            Chunk::Exact(x) => Chunk::Exact(x.min(4)),
            Chunk::Min(x) => Chunk::Min(x.min(4)),
            x => x,
        };
    }
}

/// only policies under which every runnable thread is eventually scheduled
fn fair_policy(r: &mut Rng) -> (Policy, u8, u64) {
    match r.below(10) {
        0..=2 => (Policy::Uniform, 0, 0),
        3 => (Policy::Sticky(30), 0, 0),
        4 => (Policy::Sticky(60), 0, 0),
        5 => (Policy::Sticky(90), 0, 0),
        6 | 7 => (
            Policy::Starve(match r.below(5) {
                0 => 255,
                k => (k - 1) as u8,
            }),
            0,
            *r.pick(&[20u64, 100, 400]),
        ),
        8 => (Policy::NewestFirst, 20, 0),
        _ => (Policy::SpawnerFirst, 5, 0),
    }
}

fn gen_c10(seed: u64, r: &mut Rng) -> Scenario {
    let endless = r.chance(1, 2);
    let srcs: &[Src] = if endless { &[Src::IterEndless] } else { &Src::ALL_FINITE };
    let mut scn = base(seed, r, 300, 3, srcs);
    let (p, noise, rel) = fair_policy(r);
    scn.policy = p;
    scn.noise = noise;
    scn.starve_release = rel;
    if !endless && r.chance(1, 3) {
        // long finite input
        let n = r.range(300, 1200);
        scn.vals = gen_vals(r, n);
    }
    // bounded chunk sizes: a chunk of 1000 elements of an endless source is legitimate but only costs time
    for c in scn.cs.iter_mut() {
        c.1 = match c.1 {
            Chunk::Raw(x) => Chunk::Raw(x.min(24)),
            Chunk::Exact(x) => Chunk::Exact(x.min(24)),
            Chunk::Min(x) => Chunk::Min(x.min(24)),
            x => x,
        };
    }
    if endless {
        // no eager site (it would, legitimately by the library's design, never return: known finding of C10,
        // demonstrated on finite inputs), and no stage that rejects everything
        let mut tries = 0;
        loop {
            tries += 1;
            let bad = !scn.eager_positions().is_empty()
                || scn.ops.iter().any(|o| matches!(o, Op::Filter { t: 0, .. } | Op::FilterMap { t: 0, .. }));
            if !bad {
                break;
            }
            let d = r.range(0, 3);
            scn.ops = (0..d).map(|_| { let k = r.below(4); gen_op(r, k) }).collect();
            scn.nt.retain(|x| x.0 as usize <= d);
            scn.cs.retain(|x| x.0 as usize <= d);
            if tries > 20 {
                scn.ops.clear();
                scn.nt.retain(|x| x.0 == 0);
                scn.cs.retain(|x| x.0 == 0);
                break;
            }
        }
        if scn.vals.is_empty() {
            scn.vals = vec![1, 2, 3];
        }
    }
    // terminal: a match must exist on endless sources
    let kind = r.below(10);
    if endless {
        // place the match on one element of the first K source elements
        let k = *r.pick(&[1usize, 2, 5, 10, 30, 60, 150]);
        let mut probe = scn.clone();
        probe.src = Src::IterExact;
        probe.vals = (0..k + 40).map(|i| crate::closures::endless_val(&scn.vals, i)).collect();
        probe.term = Term::Count;
        let rf = reference(&probe);
        let cands: Vec<u64> = rf.finals.iter().filter(|f| f.0 + 1 >= k.min(rf.finals.last().map(|l| l.0 + 1).unwrap_or(0))).map(|f| f.1.id).collect();
        if cands.is_empty() {
            // nothing survives the chain early on: drop the chain
            scn.ops.clear();
            scn.nt.retain(|x| x.0 == 0);
            scn.cs.retain(|x| x.0 == 0);
            scn.term = Term::Find(Pred::Ids(vec![src_id(k)]));
        } else {
            let id = cands[r.below(cands.len().min(8))];
            scn.term = match kind {
                0..=5 => Term::Find(Pred::Ids(vec![id])),
                6 | 7 => Term::Any(Pred::Ids(vec![id])),
                _ => {
                    if scn.ops.is_empty() || !rf.finals.is_empty() {
                        Term::First
                    } else {
                        Term::Find(Pred::Ids(vec![id]))
                    }
                }
            };
        }
        fit_depth(&mut scn);
        if matches!(scn.term, Term::Any(_)) && scn.ops.len() <= 1 {
            // the chain may have been cut: place again
            let mut probe = scn.clone();
            probe.src = Src::IterExact;
            probe.vals = (0..k + 40).map(|i| crate::closures::endless_val(&scn.vals, i)).collect();
            probe.term = Term::Count;
            let rf = reference(&probe);
            match rf.finals.get(r.below(rf.finals.len().max(1))) {
                Some(f) => scn.term = Term::Any(Pred::Ids(vec![f.1.id])),
                None => {
                    scn.ops.clear();
                    scn.term = Term::Any(Pred::Ids(vec![src_id(k)]));
                }
            }
        }
        // `first` needs something to survive
        if scn.term == Term::First {
            let mut probe = scn.clone();
            probe.src = Src::IterExact;
            probe.vals = (0..400).map(|i| crate::closures::endless_val(&scn.vals, i)).collect();
            probe.term = Term::Count;
            if reference(&probe).finals.is_empty() {
                scn.ops.clear();
                scn.nt.retain(|x| x.0 == 0);
                scn.cs.retain(|x| x.0 == 0);
            }
        }
    } else {
        match kind {
            0..=4 => scn.term = Term::Find(gen_pred(r, &scn)),
            5 => scn.term = Term::First,
            6 | 7 => {
                scn.term = Term::Any(Pred::Ids(vec![]));
                fit_depth(&mut scn);
                refresh_pred(r, &mut scn);
            }
            _ => gen_with_index(r, &mut scn),
        }
    }
    scn
}

/// Every fault site of a scenario: each (chain closure, element) call of the reference evaluation, each step
/// of each inner flat_map iterator, each clone of the source adaptor, each terminal closure invocation.
pub fn all_fault_sites(scn: &Scenario, rf: &crate::reference::Ref) -> Vec<Fault> {
    let mut sites: Vec<Fault> = vec![];
    for c in &rf.calls {
        if c.0 > INNER {
            sites.push(Fault { stage: c.0, trigger: Trigger::Arg(crate::closures::inner_fault_arg(c.1, c.2)) });
        } else {
            sites.push(Fault { stage: c.0, trigger: Trigger::Arg(c.1) });
        }
    }
    if scn.src.clones() {
        for id in &rf.clones {
            sites.push(Fault { stage: STAGE_CLONE, trigger: Trigger::Arg(*id) });
        }
    }
    let nfin = rf.finals.len();
    match &scn.term {
        Term::Find(_) | Term::Any(_) | Term::All(_) | Term::FindWithIndex(_) => {
            for f in &rf.finals {
                sites.push(Fault { stage: STAGE_PRED, trigger: Trigger::Arg(f.1.id) });
            }
        }
        Term::ForEach => {
            for f in &rf.finals {
                sites.push(Fault { stage: STAGE_EACH, trigger: Trigger::Arg(f.1.id) });
            }
        }
        Term::Reduce(_) | Term::Fold(_) | Term::Sum => {
            for k in 0..nfin.saturating_sub(1) {
                sites.push(Fault { stage: STAGE_RED, trigger: Trigger::Nth(k as u32) });
            }
        }
        Term::MinBy(_) | Term::MaxBy(_) => {
            for k in 0..nfin.saturating_sub(1) {
                sites.push(Fault { stage: STAGE_CMP, trigger: Trigger::Nth(k as u32) });
            }
        }
        Term::MinByKey(_) | Term::MaxByKey(_) => {
            for k in 0..2 * nfin.saturating_sub(1) {
                sites.push(Fault { stage: STAGE_KEY, trigger: Trigger::Nth(k as u32) });
            }
        }
        _ => {}
    }
    if let Term::Fold(_) = &scn.term {
        if nfin == 0 {
            sites.push(Fault { stage: STAGE_IDENT, trigger: Trigger::Nth(0) });
        }
    }
    sites
}

/// number of consecutive seeds that share one fault-free scenario in the enumeration mode
pub const C14_ENUM_BLOCK: u64 = 256;

/// Enumeration mode: seeds k*256 .. k*256+255 share one small scenario (input length <= 24) and walk through
/// its complete list of fault sites (wrapping around), each under its own schedule.
fn gen_c14_enum(seed: u64) -> Scenario {
    let block = seed / C14_ENUM_BLOCK;
    let idx = (seed % C14_ENUM_BLOCK) as usize;
    let mut r = Rng::stream(block, 0xE14);
    let r = &mut r;
    let mut scn = base(block, r, 24, 3, &Src::ALL_FINITE);
    scn.seed = seed;
    scn.term = gen_any_term(r, &scn);
    fit_depth(&mut scn);
    refresh_pred(r, &mut scn);
    let rf = reference(&scn);
    let sites = all_fault_sites(&scn, &rf);
    // the schedule, the policy and the parallelism knob vary with the seed, the workload does not
    let mut r2 = Rng::stream(seed, 0xE15);
    let (policy, noise, release) = gen_policy(&mut r2);
    scn.policy = policy;
    scn.noise = noise;
    scn.starve_release = release;
    scn.avail = gen_avail(&mut r2);
    scn.sched_seed = mix(seed, 0x5C4E, 2);
    if !sites.is_empty() {
        scn.faults.push(sites[idx % sites.len()]);
        // second round through the list: add a second fault, so that pairs are visited too
        if idx >= sites.len() && sites.len() > 1 {
            let j = (idx / sites.len() * 7 + idx) % sites.len();
            if sites[j] != scn.faults[0] {
                scn.faults.push(sites[j]);
            }
        }
    }
    scn
}

fn gen_c14(seed: u64, r: &mut Rng) -> Scenario {
    let srcs = with_collections(r);
    let mut scn = base(seed, r, 64, 3, &srcs);
    if r.chance(2, 3) {
        // small inputs: every (stage, position) is reached densely
        let n = r.range(1, 24);
        scn.vals = gen_vals(r, n);
    }
    scn.term = gen_any_term(r, &scn);
    fit_depth(&mut scn);
    refresh_pred(r, &mut scn);
    let rf = reference(&scn);
    let sites = all_fault_sites(&scn, &rf);
    if sites.is_empty() {
        return scn;
    }
    let nfaults = if r.chance(1, 6) { 2 } else { 1 };
    // terminal closures are few compared with chain closures: give them a third of the picks
    let term_sites: Vec<Fault> = sites.iter().copied().filter(|f| f.stage >= STAGE_PRED && f.stage < INNER).collect();
    for _ in 0..nfaults {
        let ft = if !term_sites.is_empty() && r.chance(1, 3) {
            term_sites[r.below(term_sites.len())]
        } else if r.chance(1, 8) {
            // the k-th invocation of a stage, whichever element that is under the schedule
            let c = sites[r.below(sites.len())];
            Fault { stage: c.stage, trigger: Trigger::Nth(r.below(sites.len().min(12)) as u32) }
        } else {
            sites[r.below(sites.len())]
        };
        if !scn.faults.contains(&ft) {
            scn.faults.push(ft);
        }
    }
    scn
}

/// C15: the dense configuration grid, walked cell by cell: consecutive seeds visit consecutive cells.
pub const C15_LENS: usize = 41;
pub const C15_NT: [Option<usize>; 12] = [None, Some(0), Some(1), Some(2), Some(3), Some(4), Some(5), Some(6), Some(9), Some(17), Some(64), Some(8)];
pub const C15_PIPES: usize = 7;
pub const C15_CHUNKS: usize = 37;
pub const C15_CELLS: usize = C15_LENS * 12 * C15_PIPES * 2 * C15_CHUNKS;

pub fn c15_chunks(len: usize) -> Vec<Option<Chunk>> {
    let mut v = vec![None, Some(Chunk::Auto), Some(Chunk::Raw(0))];
    // dense small sizes, sizes around the input length, and sampled large ones up to the largest representable
    let cs = vec![
        1usize,
        2,
        3,
        4,
        5,
        7,
        8,
        16,
        len.saturating_sub(1).max(1),
        len.max(1),
        len + 1,
        1000,
        1 << 20,
        (1 << 32) + 1,
        1 << 62,
        1 << 63,
        usize::MAX,
    ];
    for c in cs {
        v.push(Some(Chunk::Exact(c)));
        v.push(Some(Chunk::Min(c)));
    }
    v
}

fn gen_c15(seed: u64, r: &mut Rng, huge: bool) -> Scenario {
    let large = huge || seed % 397 == 0;
    // consecutive seeds are scattered over the grid by a multiplier coprime with its size: any stretch of seeds
    // samples all dimensions evenly, and C15_CELLS consecutive seeds visit every cell exactly once
    let mut idx = ((seed as u128 * 1_000_003u128) % C15_CELLS as u128) as usize;
    let len = idx % C15_LENS;
    idx /= C15_LENS;
    let nt = C15_NT[idx % C15_NT.len()];
    idx /= C15_NT.len();
    let pipe = idx % C15_PIPES;
    idx /= C15_PIPES;
    let known = idx % 2 == 0;
    idx /= 2;
    let chunks = c15_chunks(len);
    debug_assert_eq!(chunks.len(), C15_CHUNKS);
    let cs = chunks[idx % chunks.len()];
    let (policy, noise, release) = gen_policy(r);
    let mut scn = Scenario {
        seed,
        src: if known { *r.pick(&[Src::Vec, Src::SliceCloned, Src::Range, Src::IterExact]) } else { Src::IterUnknown },
        vals: gen_vals(r, len),
        ops: vec![],
        nt: nt.map(|n| vec![(0u8, n)]).unwrap_or_default(),
        cs: cs.map(|c| vec![(0u8, c)]).unwrap_or_default(),
        term: Term::Count,
        policy,
        noise,
        avail: gen_avail(r),
        sched_seed: mix(seed, 0x5C4E, 2),
        faults: vec![],
        starve_release: release,
        quiet: 0,
        pre: 0,
    };
    // a by-value iterator source buffers a whole chunk: a chunk size of 2^20 elements is a 58 MB buffer per worker
    // (0.5 s per run), one of 2^32 elements a 240 GB allocation (the process aborts, as `Vec::with_capacity` would); the astronomically large sizes are therefore only
    // sampled on the indexable sources, where a pull allocates nothing
    if let Some(Chunk::Exact(c)) | Some(Chunk::Min(c)) = cs {
        if c > 4096 && !matches!(scn.src, Src::Vec | Src::SliceCloned | Src::Range) {
            scn.src = *r.pick(&[Src::Vec, Src::SliceCloned, Src::Range]);
        }
    }
    match pipe {
        0 => {
            scn.ops = vec![gen_op(r, 0)];
            scn.term = Term::CollectVec;
        }
        1 => {
            scn.ops = vec![gen_op(r, 1)];
            scn.term = Term::CollectVec;
        }
        2 => {
            scn.ops = vec![gen_op(r, 2)];
            scn.term = Term::CollectVec;
        }
        3 => {
            scn.ops = vec![gen_op(r, 0)];
            scn.term = Term::Reduce(gen_red(r));
        }
        4 => {
            scn.ops = vec![gen_op(r, 0)];
            scn.term = Term::Find(Pred::Ids(vec![]));
            refresh_pred(r, &mut scn);
        }
        5 => {
            scn.ops = vec![gen_op(r, 3)];
            scn.term = Term::Count;
        }
        _ => {
            scn.ops = vec![gen_op(r, 1)];
            scn.term = Term::CollectX;
        }
    }
    if seed % 6 == 1 && !large {
        // beyond the seven representative pipelines: chains of two or three transformations (incl. the ones that
        // materialise an intermediate stage) under any terminal
        let a = r.below(4);
        let b = r.below(4);
        scn.ops = vec![gen_op(r, a), gen_op(r, b)];
        if r.chance(1, 2) {
            let c = r.below(4);
            scn.ops.push(gen_op(r, c));
        }
        scn.term = gen_any_term(r, &scn);
        fit_depth(&mut scn);
        refresh_pred(r, &mut scn);
    }
    if !large && seed % 41 == 7 {
        // sampled medium lengths (1.1k to 6k elements) with chunk sizes beyond 1024, under schedules that hold one
        // worker back: where a later chunk is finished before an earlier one
        let n = r.range(1100, 6000);
        scn.vals = spec_vals(n, r.below(64) as u64);
        scn.quiet = r.range(4, 6) as u8;
        if scn.src == Src::SliceCloned {
            scn.src = Src::Vec;
        }
        if r.chance(3, 4) {
            let c = *r.pick(&[64usize, 1025, 1500, 2048, 3000, 4096]);
            scn.cs = vec![(0, if r.chance(1, 2) { Chunk::Exact(c) } else { Chunk::Min(c) })];
        }
        if scn.nt.first().map(|x| x.1 == 1).unwrap_or(false) {
            scn.nt = vec![(0, r.range(2, 5))];
        }
        match r.below(10) {
            0..=3 => {
                scn.policy = Policy::Starve(r.below(3) as u8);
                scn.starve_release = 0;
                scn.noise = 0;
            }
            4..=5 => {
                scn.policy = Policy::Sticky(90);
                scn.noise = 0;
            }
            _ => {}
        }
        if let Term::Find(_) = scn.term {
            place_far_matches(r, &mut scn);
        }
    }
    if large {
        // sampled large inputs; closures are yield points only every 2^k-th event
        // the largest sampled length costs ~10 s per run: it has its own phase in the thorough tier
        let n = if huge {
            (1 << 20) + 3
        } else {
            *r.pick(&[1usize << 10, 1 << 10, (1 << 11) + 5, 3000, (1 << 12) + 1, (1 << 12) + 1, 6000, (1 << 14) + 1, 1 << 17])
        };
        scn.vals = spec_vals(n, r.below(64) as u64);
        scn.quiet = if n > (1 << 15) { 12 } else { 6 };
        if scn.src == Src::SliceCloned {
            scn.src = Src::Vec;
        }
        if let Term::Find(_) = scn.term {
            place_far_matches(r, &mut scn);
        }
        // chunk sizes around and beyond 1024 are where the large inputs differ from the grid's small ones
        if r.chance(1, 2) && matches!(scn.src, Src::Vec | Src::Range | Src::IterExact) {
            let c = *r.pick(&[512usize, 1024, 1025, 2048, 4096]);
            scn.cs = vec![(0, if r.chance(1, 2) { Chunk::Exact(c) } else { Chunk::Min(c) })];
        }
    }
    scn
}
