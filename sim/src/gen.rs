//! Seeded scenario generator. Every choice derives from one integer; workload and schedule use separate
//! streams so that shrinking the workload does not shift the schedule stream.

use crate::reference::reference;
use crate::rng::{mix, Rng};
use crate::scenario::*;
use crate::sched::Policy;

fn gen_len(r: &mut Rng, max: usize) -> usize {
    let x = r.below(100);
    let n = if x < 8 {
        r.range(0, 2)
    } else if x < 40 {
        r.range(3, 12)
    } else if x < 75 {
        r.range(13, 40)
    } else if x < 95 {
        r.range(41, 64)
    } else {
        r.range(65, 300)
    };
    n.min(max)
}

fn gen_vals(r: &mut Rng, n: usize) -> Vec<i64> {
    (0..n).map(|_| r.range(0, 12) as i64 - 4).collect()
}

fn gen_op(r: &mut Rng, kind: usize) -> Op {
    match kind {
        0 => Op::Map {
            mul: *r.pick(&[1, 2, 3, -1]),
            add: r.range(0, 6) as i64 - 3,
        },
        1 => {
            let m = r.range(2, 5) as u64;
            let t = match r.below(10) {
                0 => 0,
                1 => m,
                _ => r.range(1, m as usize - 1) as u64,
            };
            Op::Filter { m, t, salt: r.below(1000) as u64 }
        }
        2 => Op::FlatMap {
            salt: r.below(1000) as u64,
            maxk: r.range(1, 3) as u8,
            lazy: r.chance(1, 2),
        },
        _ => {
            let m = r.range(2, 5) as u64;
            let t = match r.below(10) {
                0 => 0,
                1 => m,
                _ => r.range(1, m as usize - 1) as u64,
            };
            Op::FilterMap {
                m,
                t,
                salt: r.below(1000) as u64,
                add: r.range(0, 4) as i64 - 2,
                res: r.chance(3, 10),
            }
        }
    }
}

fn gen_ops(r: &mut Rng, max_depth: usize) -> Vec<Op> {
    let d = match r.below(100) {
        0..=11 => 0,
        12..=39 => 1,
        40..=71 => 2,
        _ => 3,
    }
    .min(max_depth);
    (0..d).map(|_| {
        let k = r.below(4);
        gen_op(r, k)
    }).collect()
}

const NT_CHOICES: [usize; 14] = [0, 1, 2, 2, 3, 3, 4, 4, 5, 6, 8, 9, 17, 64];

fn gen_chunk(r: &mut Rng, len: usize) -> Chunk {
    let cands = [1usize, 1, 2, 2, 3, 4, 5, 7, 8, 16, len.saturating_sub(1).max(1), len.max(1), len + 1, 1000];
    let c = *r.pick(&cands);
    match r.below(10) {
        0 => Chunk::Auto,
        1 => Chunk::Raw(0),
        2 | 3 => Chunk::Raw(c),
        4..=6 => Chunk::Exact(c),
        _ => Chunk::Min(c),
    }
}

fn gen_params(r: &mut Rng, scn: &mut Scenario) {
    let npos = scn.ops.len();
    match r.below(100) {
        0..=11 => {}
        12..=79 => scn.nt.push((0, *r.pick(&NT_CHOICES))),
        80..=91 => scn.nt.push((r.range(0, npos) as u8, *r.pick(&NT_CHOICES))),
        _ => {
            scn.nt.push((0, *r.pick(&NT_CHOICES)));
            scn.nt.push((r.range(0, npos) as u8, *r.pick(&NT_CHOICES)));
        }
    }
    let len = scn.vals.len();
    match r.below(100) {
        0..=21 => {}
        22..=79 => scn.cs.push((0, gen_chunk(r, len))),
        80..=91 => scn.cs.push((r.range(0, npos) as u8, gen_chunk(r, len))),
        _ => {
            scn.cs.push((0, gen_chunk(r, len)));
            scn.cs.push((r.range(0, npos) as u8, gen_chunk(r, len)));
        }
    }
}

pub fn gen_policy(r: &mut Rng) -> (Policy, u8, u64) {
    let p = match r.below(100) {
        0..=21 => Policy::Uniform,
        22..=29 => Policy::Sticky(30),
        30..=39 => Policy::Sticky(60),
        40..=49 => Policy::Sticky(90),
        50..=63 => Policy::Pct(r.range(1, 3) as u8),
        64..=71 => Policy::SpawnerFirst,
        72..=79 => Policy::SpawnerLast,
        80..=87 => Policy::NewestFirst,
        _ => Policy::Starve(match r.below(6) {
            0 => 255,
            k => (k - 1) as u8,
        }),
    };
    let noise = *r.pick(&[0u8, 0, 5, 20]);
    let release = if matches!(p, Policy::Starve(_)) { *r.pick(&[0u64, 0, 50, 500]) } else { 0 };
    (p, noise, release)
}

fn gen_avail(r: &mut Rng) -> usize {
    match r.below(10) {
        0 => 1,
        1 => 2,
        2 => 3,
        3..=5 => r.range(4, 8),
        6..=8 => r.range(9, 16),
        _ => r.range(17, 32),
    }
}

fn gen_red(r: &mut Rng) -> RedOp {
    *r.pick(&[RedOp::Add, RedOp::Add, RedOp::Xor, RedOp::MinVal, RedOp::MaxVal])
}

/// A predicate with matches placed by the generator: 0, 1 or several matching elements, near each other or
/// far apart, early or late.
fn gen_pred(r: &mut Rng, scn: &Scenario) -> Pred {
    if r.chance(1, 5) {
        let m = r.range(2, 6) as u64;
        return Pred::Hash {
            m,
            t: r.range(0, m as usize) as u64,
            salt: r.below(1000) as u64,
        };
    }
    let mut tmp = scn.clone();
    tmp.term = Term::Count;
    let rf = reference(&tmp);
    let n = rf.finals.len();
    if n == 0 {
        return Pred::Ids(vec![]);
    }
    let mut ids = vec![];
    match r.below(10) {
        0 => {}
        1..=3 => ids.push(rf.finals[r.below(n)].1.id),
        4..=6 => {
            // two matches, often adjacent
            let a = r.below(n);
            let b = if r.chance(1, 2) { (a + 1 + r.below(3)).min(n - 1) } else { r.below(n) };
            ids.push(rf.finals[a].1.id);
            ids.push(rf.finals[b].1.id);
        }
        _ => {
            let k = r.range(2, 6);
            for _ in 0..k {
                ids.push(rf.finals[r.below(n)].1.id);
            }
        }
    }
    ids.sort();
    ids.dedup();
    Pred::Ids(ids)
}

fn base(seed: u64, r: &mut Rng, max_len: usize, max_depth: usize, srcs: &[Src]) -> Scenario {
    let len = gen_len(r, max_len);
    let vals = gen_vals(r, len);
    let ops = gen_ops(r, max_depth);
    let (policy, noise, release) = gen_policy(r);
    let mut scn = Scenario {
        seed,
        src: *r.pick(srcs),
        vals,
        ops,
        nt: vec![],
        cs: vec![],
        term: Term::Count,
        policy,
        noise,
        avail: gen_avail(r),
        sched_seed: mix(seed, 0x5C4E, 2),
        faults: vec![],
        starve_release: release,
    };
    gen_params(r, &mut scn);
    scn
}

fn gen_target(r: &mut Rng, len: usize, empty: bool) -> Target {
    let kind = *r.pick(&[TargetKind::Vec, TargetKind::Vec, TargetKind::SplitDoubling, TargetKind::SplitLinear, TargetKind::Fixed]);
    let prefix = if empty { 0 } else { *r.pick(&[0usize, 1, 1, 5, 5, len + 3, 2]) };
    let spare = match r.below(4) {
        0 => 0,
        1 => len,
        2 => len * 3 + 4,
        _ => r.below(8),
    };
    Target { kind, prefix, spare }
}

/// restrict the chain so that the terminal is instantiated for its shape
fn fit_depth(scn: &mut Scenario) {
    if !scn.term.is_core() && scn.ops.len() > 1 {
        scn.ops.truncate(1);
        scn.nt.retain(|x| x.0 as usize <= 1);
        scn.cs.retain(|x| x.0 as usize <= 1);
    }
}

fn gen_with_index(r: &mut Rng, scn: &mut Scenario) {
    // shapes "", "m", "f", "mf"; Range supports "" and "f"; SliceCloned none
    if scn.src == Src::SliceCloned {
        scn.src = Src::Vec;
    }
    let shapes: &[&str] = if scn.src == Src::Range { &["", "f"] } else { &["", "m", "f", "mf"] };
    let sh = *r.pick(shapes);
    scn.ops = sh
        .chars()
        .map(|c| gen_op(r, if c == 'm' { 0 } else { 1 }))
        .collect();
    let n = scn.ops.len();
    scn.nt.retain(|x| x.0 as usize <= n);
    scn.cs.retain(|x| x.0 as usize <= n);
    scn.term = if r.chance(1, 4) { Term::FirstWithIndex } else { Term::FindWithIndex(gen_pred(r, scn)) };
}

pub fn generate(prop: &str, seed: u64) -> Scenario {
    let mut r = Rng::stream(seed, 0x3017);
    let r = &mut r;
    match prop {
        "C01" => {
            let mut scn = base(seed, r, 300, 3, &Src::ALL_FINITE);
            scn.term = match r.below(10) {
                0..=3 => Term::CollectVec,
                4..=5 => Term::Collect,
                _ => Term::CollectInto(gen_target(r, scn.vals.len(), true)),
            };
            fit_depth(&mut scn);
            scn
        }
        "C02" => {
            let mut scn = base(seed, r, 300, 3, &Src::ALL_FINITE);
            match r.below(10) {
                0..=3 => scn.term = Term::Find(gen_pred(r, &scn)),
                4 => scn.term = Term::First,
                5 => {
                    scn.term = Term::Any(Pred::Ids(vec![]));
                    fit_depth(&mut scn);
                    scn.term = Term::Any(gen_pred(r, &scn));
                }
                6 => {
                    scn.term = Term::All(Pred::Ids(vec![]));
                    fit_depth(&mut scn);
                    // `all` stops at the first element that fails: make most elements pass
                    let mut tmp = scn.clone();
                    tmp.term = Term::Count;
                    let rf = reference(&tmp);
                    let mut ids: Vec<u64> = rf.finals.iter().map(|x| x.1.id).collect();
                    let holes = r.below(3);
                    for _ in 0..holes {
                        if !ids.is_empty() {
                            let k = r.below(ids.len());
                            ids.remove(k);
                        }
                    }
                    ids.sort();
                    scn.term = Term::All(Pred::Ids(ids));
                }
                _ => gen_with_index(r, &mut scn),
            }
            scn
        }
        "C03" => {
            let mut scn = base(seed, r, 300, 3, &Src::ALL_FINITE);
            scn.term = match r.below(14) {
                0..=4 => Term::Reduce(gen_red(r)),
                5 => Term::Fold(gen_red(r)),
                6 => Term::Sum,
                7 => Term::Min,
                8 => Term::Max,
                9 => Term::MinBy(r.range(1, 5) as u8),
                10 => Term::MaxBy(r.range(1, 5) as u8),
                11 => Term::MinByKey(r.range(1, 5) as u8),
                12 => Term::MaxByKey(r.range(1, 5) as u8),
                _ => Term::Reduce(RedOp::Xor),
            };
            fit_depth(&mut scn);
            scn
        }
        "C04" => {
            let mut scn = base(seed, r, 300, 3, &Src::ALL_FINITE);
            scn.term = if r.chance(1, 2) { Term::Count } else { Term::ForEach };
            scn
        }
        "C06" => {
            let mut scn = base(seed, r, 120, 3, &Src::ALL_FINITE);
            // the pair (map-only chain, source of unknown length) is asked for explicitly
            if r.chance(1, 4) {
                scn.src = Src::IterUnknown;
                let d = r.range(0, 2);
                scn.ops = (0..d).map(|_| gen_op(r, 0)).collect();
                scn.nt.retain(|x| x.0 as usize <= d);
                scn.cs.retain(|x| x.0 as usize <= d);
            }
            scn.term = Term::CollectInto(gen_target(r, scn.vals.len(), false));
            scn
        }
        "C07" => {
            let mut scn = base(seed, r, 300, 3, &Src::ALL_FINITE);
            scn.term = Term::CollectX;
            scn
        }
        _ => {
            let mut scn = base(seed, r, 300, 3, &Src::ALL_FINITE);
            scn.term = gen_any_term(r, &scn);
            fit_depth(&mut scn);
            refresh_pred(r, &mut scn);
            scn
        }
    }
}

/// after the chain has been cut, a placed predicate refers to ids that no longer exist: place it again
pub fn refresh_pred(r: &mut Rng, scn: &mut Scenario) {
    let fresh = match &scn.term {
        Term::Find(Pred::Ids(_)) => Some(Term::Find(gen_pred(r, scn))),
        Term::Any(Pred::Ids(_)) => Some(Term::Any(gen_pred(r, scn))),
        Term::All(Pred::Ids(_)) => Some(Term::All(gen_pred(r, scn))),
        _ => None,
    };
    if let Some(t) = fresh {
        scn.term = t;
    }
}

pub fn gen_any_term(r: &mut Rng, scn: &Scenario) -> Term {
    match r.below(22) {
        0 | 1 => Term::CollectVec,
        2 => Term::Collect,
        3 | 4 => Term::CollectInto(gen_target(r, scn.vals.len(), false)),
        5 => Term::CollectX,
        6 => Term::Count,
        7 => Term::ForEach,
        8 | 9 => Term::Reduce(gen_red(r)),
        10 => Term::Fold(gen_red(r)),
        11 => Term::Sum,
        12 => Term::Min,
        13 => Term::Max,
        14 => Term::MinBy(r.range(1, 5) as u8),
        15 => Term::MaxByKey(r.range(1, 5) as u8),
        16 | 17 => Term::Find(gen_pred(r, scn)),
        18 => Term::First,
        19 => Term::Any(gen_pred(r, scn)),
        20 => Term::All(gen_pred(r, scn)),
        _ => Term::MinByKey(r.range(1, 5) as u8),
    }
}
