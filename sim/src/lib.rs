pub mod closures;
pub mod exec;
pub mod pipeline;
pub mod reference;
pub mod rng;
pub mod scenario;
pub mod sched;
pub mod tok;
