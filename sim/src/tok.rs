//! The item type of every simulated pipeline, and the global life-cycle table.
//!
//! `Tok` owns no heap memory, so dropping a bit-copy or garbage cannot crash the process: a double drop shows
//! up as `drops == 2`, a drop of never-initialised memory as an invalid canary.

use crate::rng::mix;
use crate::sched::{self, Kind};
use std::collections::BTreeMap;
use std::sync::Mutex;

const CANARY_KEY: u64 = 0xA5A5_5A5A_C3C3_3C3C;
const DEAD: u64 = 0xDEAD_DEAD_DEAD_DEAD;

pub const TAG_CLONE: u64 = 0xC10E;

/// Plain data of a token: what the reference model computes with.
#[derive(Clone, Copy, Debug, PartialEq, Eq, PartialOrd, Ord, Hash)]
pub struct RTok {
    pub id: u64,
    pub val: i64,
    /// witness of the leaves folded into this value: count, wrapping sum and xor of h(leaf id)
    pub w_cnt: u32,
    pub w_sum: u64,
    pub w_xor: u64,
}

impl RTok {
    pub fn leaf(id: u64, val: i64) -> Self {
        let h = mix(id, 0x1EAF, 7);
        RTok {
            id,
            val,
            w_cnt: 1,
            w_sum: h,
            w_xor: h,
        }
    }
}

#[derive(Debug)]
pub struct Tok {
    pub d: RTok,
    canary: u64,
}

#[derive(Clone, Copy, Debug, Default, PartialEq, Eq)]
pub struct Life {
    pub created: u32,
    pub dropped: u32,
}

#[derive(Debug, Default)]
pub struct Table {
    pub lives: BTreeMap<u64, Life>,
    pub invalid_drops: u64,
    /// ids whose drop was observed on a thread that was unwinding
    pub drops_while_panicking: u64,
}

static TABLE: Mutex<Option<Table>> = Mutex::new(None);

pub fn table_reset() {
    *TABLE.lock().unwrap_or_else(|p| p.into_inner()) = Some(Table::default());
}

pub fn table_take() -> Table {
    TABLE
        .lock()
        .unwrap_or_else(|p| p.into_inner())
        .take()
        .unwrap_or_default()
}

fn with_table(f: impl FnOnce(&mut Table)) {
    if let Some(t) = TABLE.lock().unwrap_or_else(|p| p.into_inner()).as_mut() {
        f(t)
    }
}

impl Tok {
    pub fn new(d: RTok) -> Tok {
        with_table(|t| t.lives.entry(d.id).or_default().created += 1);
        Tok {
            d,
            canary: d.id ^ CANARY_KEY,
        }
    }

    pub fn leaf(id: u64, val: i64) -> Tok {
        Tok::new(RTok::leaf(id, val))
    }

    pub fn id(&self) -> u64 {
        self.d.id
    }
}

impl Drop for Tok {
    fn drop(&mut self) {
        let canary = unsafe { std::ptr::read_volatile(&self.canary) };
        let id = self.d.id;
        if canary != id ^ CANARY_KEY {
            with_table(|t| t.invalid_drops += 1);
            return;
        }
        unsafe { std::ptr::write_volatile(&mut self.canary, DEAD) };
        let panicking = std::thread::panicking();
        with_table(|t| {
            t.lives.entry(id).or_default().dropped += 1;
            if panicking {
                t.drops_while_panicking += 1;
            }
        });
        sched::hit(Kind::Drop, 0, id, 0);
    }
}

pub fn clone_id(id: u64) -> u64 {
    mix(TAG_CLONE, id, 0)
}

impl Clone for Tok {
    fn clone(&self) -> Self {
        let mut d = self.d;
        d.id = clone_id(self.d.id);
        if sched::hit(Kind::Clone, 0, self.d.id, d.id) && !std::thread::panicking() {
            std::panic::panic_any(crate::closures::PANIC_ABORT);
        }
        crate::closures::maybe_fault(crate::scenario::STAGE_CLONE, self.d.id, 0);
        Tok::new(d)
    }
}

// Ordering by value only: inputs contain duplicates, so ties between distinct ids are common.
impl PartialEq for Tok {
    fn eq(&self, other: &Self) -> bool {
        self.d.val == other.d.val
    }
}
impl Eq for Tok {}
impl PartialOrd for Tok {
    fn partial_cmp(&self, other: &Self) -> Option<std::cmp::Ordering> {
        Some(self.cmp(other))
    }
}
impl Ord for Tok {
    fn cmp(&self, other: &Self) -> std::cmp::Ordering {
        self.d.val.cmp(&other.d.val)
    }
}
