//! A scenario: everything that defines one simulated execution except the schedule decisions themselves.
//! Spelled out field by field (not just a seed) so that it can be shrunk and replayed.

use crate::rng::mix;
use crate::sched::Policy;
use crate::tok::RTok;

pub const STAGE_SRC: u16 = 0; // source adaptor (cloned / range map)
pub const STAGE_PRED: u16 = 10;
pub const STAGE_RED: u16 = 11;
pub const STAGE_KEY: u16 = 12;
pub const STAGE_CMP: u16 = 13;
pub const STAGE_EACH: u16 = 14;
pub const STAGE_IDENT: u16 = 15;
/// `Clone::clone` of the item type (the `.cloned()` source adaptor)
pub const STAGE_CLONE: u16 = 20;
/// `next` of the iterator returned by the flat_map closure of stage s is stage s + INNER
pub const INNER: u16 = 100;

#[derive(Clone, Copy, Debug, PartialEq, Eq)]
pub enum Src {
    /// `Vec<Tok>::into_par()` (ConIterOfVec)
    Vec,
    /// `vec.par().cloned()` (ConIterOfSlice, then a map)
    SliceCloned,
    /// `(0..n).into_par().map(make)` (ConIterOfRange, then a map)
    Range,
    /// boxed by-value iterator with an exact size hint (ConIterOfIter, known length)
    IterExact,
    /// boxed by-value iterator whose size hint is not exact (ConIterOfIter, unknown length)
    IterUnknown,
    /// boxed by-value iterator that never ends; `len` is ignored
    IterEndless,
    /// `positions.par().copied().map(make)`: a slice of plain integers by reference, copied, then mapped to tokens
    SliceCopied,
    /// std collections by value (`into_par()`): ConIterOfIter over the collection's IntoIter
    Deque,
    List,
    BSet,
    Heap,
    /// `BTreeMap<u32, Tok>::into_par()`, items are (key, value) pairs, followed by a map to the value
    BMap,
    /// std collections by reference (`par()`), followed by `.cloned()` (BMapRef: by a map cloning the value)
    DequeRef,
    ListRef,
    BSetRef,
    HeapRef,
    BMapRef,
}

impl Src {
    pub const ALL_FINITE: [Src; 5] = [Src::Vec, Src::SliceCloned, Src::Range, Src::IterExact, Src::IterUnknown];
    pub const COLLECTIONS: [Src; 11] = [
        Src::SliceCopied,
        Src::Deque,
        Src::List,
        Src::BSet,
        Src::Heap,
        Src::BMap,
        Src::DequeRef,
        Src::ListRef,
        Src::BSetRef,
        Src::HeapRef,
        Src::BMapRef,
    ];
    pub fn is_collection(&self) -> bool {
        Src::COLLECTIONS.contains(self)
    }
    /// (the group also holds `SliceCopied`: like the std collections it is instantiated for short chains only)
    /// by-reference std collection: the items are cloned by the first stage
    pub fn is_collection_ref(&self) -> bool {
        matches!(self, Src::DequeRef | Src::ListRef | Src::BSetRef | Src::HeapRef | Src::BMapRef)
    }
    pub fn name(&self) -> &'static str {
        match self {
            Src::Vec => "vec",
            Src::SliceCloned => "slicecloned",
            Src::Range => "range",
            Src::IterExact => "iterexact",
            Src::IterUnknown => "iterunknown",
            Src::IterEndless => "iterendless",
            Src::SliceCopied => "slicecopied",
            Src::Deque => "deque",
            Src::List => "list",
            Src::BSet => "bset",
            Src::Heap => "heap",
            Src::BMap => "bmap",
            Src::DequeRef => "dequeref",
            Src::ListRef => "listref",
            Src::BSetRef => "bsetref",
            Src::HeapRef => "heapref",
            Src::BMapRef => "bmapref",
        }
    }
    pub fn parse(s: &str) -> Option<Src> {
        Some(match s {
            "vec" => Src::Vec,
            "slicecloned" => Src::SliceCloned,
            "range" => Src::Range,
            "iterexact" => Src::IterExact,
            "iterunknown" => Src::IterUnknown,
            "iterendless" => Src::IterEndless,
            "slicecopied" => Src::SliceCopied,
            "deque" => Src::Deque,
            "list" => Src::List,
            "bset" => Src::BSet,
            "heap" => Src::Heap,
            "bmap" => Src::BMap,
            "dequeref" => Src::DequeRef,
            "listref" => Src::ListRef,
            "bsetref" => Src::BSetRef,
            "heapref" => Src::HeapRef,
            "bmapref" => Src::BMapRef,
            _ => return None,
        })
    }
    pub fn is_iter(&self) -> bool {
        matches!(self, Src::IterExact | Src::IterUnknown | Src::IterEndless)
    }
    /// sources whose elements are owned by the pipeline
    pub fn is_owning(&self) -> bool {
        !matches!(self, Src::SliceCloned) && !self.is_collection_ref()
    }
    pub fn known_len(&self) -> bool {
        matches!(self, Src::Vec | Src::SliceCloned | Src::Range | Src::IterExact) || self.is_collection()
    }
    /// the source goes through a map stage (stage 0) before the chain
    pub fn has_adaptor(&self) -> bool {
        matches!(self, Src::SliceCloned | Src::Range | Src::BMap | Src::SliceCopied) || self.is_collection_ref()
    }
    /// the first stage clones the element (Clone events instead of stage-0 calls)
    pub fn clones(&self) -> bool {
        matches!(self, Src::SliceCloned) || self.is_collection_ref()
    }
}

#[derive(Clone, Copy, Debug, PartialEq, Eq)]
pub enum Op {
    Map { mul: i64, add: i64 },
    /// keep iff mix(val, salt) % m < t
    Filter { m: u64, t: u64, salt: u64 },
    /// yields mix(val, salt) % (maxk + 1) children; lazy = children are created by the returned iterator's `next`
    FlatMap { salt: u64, maxk: u8, lazy: bool },
    /// Some iff mix(val, salt) % m < t, mapped by +add; res = returns a Result instead of an Option
    FilterMap { m: u64, t: u64, salt: u64, add: i64, res: bool },
}

impl Op {
    pub fn letter(&self) -> char {
        match self {
            Op::Map { .. } => 'm',
            Op::Filter { .. } => 'f',
            Op::FlatMap { .. } => 'x',
            Op::FilterMap { .. } => 'o',
        }
    }
}

#[derive(Clone, Debug, PartialEq, Eq)]
pub enum Pred {
    /// true iff mix(val, salt) % m < t
    Hash { m: u64, t: u64, salt: u64 },
    /// true iff the element's id is in the (sorted) set: lets the generator place matches
    Ids(Vec<u64>),
}

impl Pred {
    pub fn eval(&self, x: &RTok) -> bool {
        match self {
            Pred::Hash { m, t, salt } => mix(x.val as u64, *salt, 1) % m < *t,
            Pred::Ids(v) => v.binary_search(&x.id).is_ok(),
        }
    }
}

#[derive(Clone, Copy, Debug, PartialEq, Eq)]
pub enum RedOp {
    Add,
    Xor,
    MinVal,
    MaxVal,
}

#[derive(Clone, Copy, Debug, PartialEq, Eq)]
pub enum TargetKind {
    Vec,
    /// SplitVec, doubling growth, 32 fragments reserved
    SplitDoubling,
    /// SplitVec, linear growth with fragments of 2^14 elements
    SplitLinear,
    Fixed,
    /// `SplitVec::new()`: doubling growth with the default fragments capacity (concurrent capacity 60)
    SplitNew,
    /// `SplitVec::with_linear_growth(4)`: fragments of 16 elements, default fragments capacity
    SplitLinearSmall,
}

#[derive(Clone, Copy, Debug, PartialEq, Eq)]
pub struct Target {
    pub kind: TargetKind,
    pub prefix: usize,
    /// extra capacity reserved beyond the prefix (Vec / Fixed)
    pub spare: usize,
}

#[derive(Clone, Debug, PartialEq, Eq)]
pub enum Term {
    CollectVec,
    Collect,
    CollectInto(Target),
    CollectX,
    /// collect_x behind a last `map` to the zero-sized `()`: the observable value is the number of units returned
    CollectXUnit,
    Count,
    ForEach,
    Reduce(RedOp),
    Fold(RedOp),
    Sum,
    Min,
    Max,
    MinBy(u8),
    MaxBy(u8),
    MinByKey(u8),
    MaxByKey(u8),
    Find(Pred),
    First,
    Any(Pred),
    All(Pred),
    /// inherent methods of the four concrete types that expose them; the chain must have the matching shape
    FindWithIndex(Pred),
    FirstWithIndex,
}

impl Term {
    pub fn name(&self) -> &'static str {
        match self {
            Term::CollectVec => "collect_vec",
            Term::Collect => "collect",
            Term::CollectInto(_) => "collect_into",
            Term::CollectX => "collect_x",
            Term::CollectXUnit => "collect_x_unit",
            Term::Count => "count",
            Term::ForEach => "for_each",
            Term::Reduce(_) => "reduce",
            Term::Fold(_) => "fold",
            Term::Sum => "sum",
            Term::Min => "min",
            Term::Max => "max",
            Term::MinBy(_) => "min_by",
            Term::MaxBy(_) => "max_by",
            Term::MinByKey(_) => "min_by_key",
            Term::MaxByKey(_) => "max_by_key",
            Term::Find(_) => "find",
            Term::First => "first",
            Term::Any(_) => "any",
            Term::All(_) => "all",
            Term::FindWithIndex(_) => "find_with_index",
            Term::FirstWithIndex => "first_with_index",
        }
    }
    pub fn is_short_circuit(&self) -> bool {
        matches!(
            self,
            Term::Find(_) | Term::First | Term::Any(_) | Term::All(_) | Term::FindWithIndex(_) | Term::FirstWithIndex
        )
    }
    /// terminals that every chain shape instantiates; the others only exist for chains of at most one stage
    pub fn is_core(&self) -> bool {
        matches!(
            self,
            Term::CollectVec
                | Term::CollectInto(_)
                | Term::CollectX
                | Term::CollectXUnit
                | Term::Count
                | Term::ForEach
                | Term::Reduce(_)
                | Term::Find(_)
                | Term::First
        )
    }
}

#[derive(Clone, Copy, Debug, PartialEq, Eq)]
pub enum Chunk {
    /// `chunk_size(n)` through `From<usize>` (0 = Auto, n = Exact(n))
    Raw(usize),
    Exact(usize),
    Min(usize),
    Auto,
}

#[derive(Clone, Copy, Debug, PartialEq, Eq)]
pub enum Trigger {
    /// panic when the stage is called with this argument id
    Arg(u64),
    /// panic at the k-th (0-based) invocation of the stage
    Nth(u32),
}

#[derive(Clone, Copy, Debug, PartialEq, Eq)]
pub struct Fault {
    pub stage: u16,
    pub trigger: Trigger,
}

#[derive(Clone, Debug, PartialEq, Eq)]
pub struct Scenario {
    pub seed: u64,
    pub src: Src,
    /// input values; element i has id i + 1
    pub vals: Vec<i64>,
    pub ops: Vec<Op>,
    /// (position, n): `num_threads(n)` applied after `position` stages (0 = on the source)
    pub nt: Vec<(u8, usize)>,
    pub cs: Vec<(u8, Chunk)>,
    pub term: Term,
    pub policy: Policy,
    pub noise: u8,
    pub avail: usize,
    pub sched_seed: u64,
    pub faults: Vec<Fault>,
    pub starve_release: u64,
    /// closures are yield points (and are logged) only every 2^quiet-th call: for the sampled large inputs
    pub quiet: u8,
    /// number of elements pulled from the concurrent iterator before it is turned into a parallel computation
    /// (`into_con_iter()`, `next()` x pre, `into_par()`): a partially consumed source
    pub pre: usize,
}

// ---------------------------------------------------------------------------------------------
// pure stage functions: shared by the instrumented closures and by the reference model

pub fn src_id(pos: usize) -> u64 {
    pos as u64 + 1
}

pub fn map_fn(stage: u16, op: &Op, x: RTok) -> RTok {
    match op {
        Op::Map { mul, add } => RTok::leaf(mix(stage as u64, x.id, 0), x.val.wrapping_mul(*mul).wrapping_add(*add)),
        _ => unreachable!(),
    }
}

pub fn filter_fn(op: &Op, x: &RTok) -> bool {
    match op {
        Op::Filter { m, t, salt } => mix(x.val as u64, *salt, 1) % m < *t,
        _ => unreachable!(),
    }
}

pub fn flatmap_count(op: &Op, x: &RTok) -> usize {
    match op {
        Op::FlatMap { salt, maxk, .. } => (mix(x.val as u64, *salt, 2) % (*maxk as u64 + 1)) as usize,
        _ => unreachable!(),
    }
}

pub fn flatmap_child(stage: u16, x: &RTok, j: usize) -> RTok {
    RTok::leaf(mix(stage as u64, x.id, 1 + j as u64), x.val.wrapping_mul(3).wrapping_add(j as i64))
}

pub fn filtermap_fn(stage: u16, op: &Op, x: RTok) -> Option<RTok> {
    match op {
        Op::FilterMap { m, t, salt, add, .. } => {
            if mix(x.val as u64, *salt, 3) % m < *t {
                Some(RTok::leaf(mix(stage as u64, x.id, 0), x.val.wrapping_add(*add)))
            } else {
                None
            }
        }
        _ => unreachable!(),
    }
}

pub fn red_fn(op: RedOp, a: RTok, b: RTok) -> RTok {
    let val = match op {
        RedOp::Add => a.val.wrapping_add(b.val),
        RedOp::Xor => a.val ^ b.val,
        RedOp::MinVal => a.val.min(b.val),
        RedOp::MaxVal => a.val.max(b.val),
    };
    RTok {
        id: mix(0x4ED, a.id, b.id),
        val,
        w_cnt: a.w_cnt.wrapping_add(b.w_cnt),
        w_sum: a.w_sum.wrapping_add(b.w_sum),
        w_xor: a.w_xor ^ b.w_xor,
    }
}

pub fn key_fn(k: u8, x: &RTok) -> i64 {
    x.val.rem_euclid(k.max(1) as i64)
}

pub fn clone_fn(x: RTok) -> RTok {
    let mut d = x;
    d.id = crate::tok::clone_id(x.id);
    d
}

/// ordering wrapper that mirrors `Tok`'s `Ord` (by value only) for the reference copies of the ordered collections
#[derive(Clone, Copy, Debug)]
pub struct ByVal(pub i64, pub usize);
impl PartialEq for ByVal {
    fn eq(&self, o: &Self) -> bool {
        self.0 == o.0
    }
}
impl Eq for ByVal {}
impl PartialOrd for ByVal {
    fn partial_cmp(&self, o: &Self) -> Option<std::cmp::Ordering> {
        Some(self.cmp(o))
    }
}
impl Ord for ByVal {
    fn cmp(&self, o: &Self) -> std::cmp::Ordering {
        self.0.cmp(&o.0)
    }
}

/// key of element i in the BTreeMap sources: scattered, with occasional collisions (a later insert replaces)
pub fn bmap_key(i: usize) -> u32 {
    (mix(0xB3A9, i as u64, 1) % 997) as u32
}

/// The order in which the source yields the input elements: indices into `vals`. Identity for sequences;
/// for the ordered std collections it is what the same std collection, filled in the same way, iterates in.
pub fn source_order(src: Src, vals: &[i64]) -> Vec<usize> {
    use std::collections::{BTreeMap, BTreeSet, BinaryHeap};
    match src {
        Src::BSet | Src::BSetRef => {
            let mut s: BTreeSet<ByVal> = BTreeSet::new();
            for (i, v) in vals.iter().enumerate() {
                s.insert(ByVal(*v, i));
            }
            s.into_iter().map(|x| x.1).collect()
        }
        Src::Heap | Src::HeapRef => {
            let mut h: BinaryHeap<ByVal> = BinaryHeap::new();
            for (i, v) in vals.iter().enumerate() {
                h.push(ByVal(*v, i));
            }
            h.into_iter().map(|x| x.1).collect()
        }
        Src::BMap | Src::BMapRef => {
            let mut m: BTreeMap<u32, usize> = BTreeMap::new();
            for i in 0..vals.len() {
                m.insert(bmap_key(i), i);
            }
            m.into_iter().map(|x| x.1).collect()
        }
        _ => (0..vals.len()).collect(),
    }
}

// ---------------------------------------------------------------------------------------------
// effective parameters

impl Scenario {
    pub fn len(&self) -> usize {
        self.vals.len()
    }

    /// the last `num_threads` value set anywhere (None = never set = Auto)
    pub fn final_nt(&self) -> Option<usize> {
        let mut v = self.nt.clone();
        v.sort_by_key(|x| x.0);
        v.last().map(|x| x.1)
    }
    pub fn final_cs(&self) -> Option<Chunk> {
        let mut v = self.cs.clone();
        v.sort_by_key(|x| x.0);
        v.last().map(|x| x.1)
    }
    /// num_threads in effect after `pos` stages
    pub fn nt_at(&self, pos: usize) -> Option<usize> {
        let mut best: Option<(u8, usize)> = None;
        for &(p, n) in &self.nt {
            if (p as usize) <= pos && best.map(|b| p >= b.0).unwrap_or(true) {
                best = Some((p, n));
            }
        }
        best.map(|b| b.1)
    }
    pub fn cs_at(&self, pos: usize) -> Option<Chunk> {
        let mut best: Option<(u8, Chunk)> = None;
        for &(p, c) in &self.cs {
            if (p as usize) <= pos && best.map(|b| p >= b.0).unwrap_or(true) {
                best = Some((p, c));
            }
        }
        best.map(|b| b.1)
    }
    /// true iff the terminal executes sequentially (`NumThreads::Max(1)` in effect at the terminal)
    pub fn is_sequential(&self) -> bool {
        self.final_nt() == Some(1)
    }
    pub fn shape(&self) -> String {
        self.ops.iter().map(|o| o.letter()).collect()
    }

    /// Stages at which the library materialises the upstream computation while the chain is being built
    /// (the eight eager transformation sites): returns the positions p such that applying op p collects
    /// ops[..p] first.
    pub fn eager_positions(&self) -> Vec<usize> {
        self.eager_sites().into_iter().map(|x| x.0).collect()
    }

    /// (position, name of the eager site)
    pub fn eager_sites(&self) -> Vec<(usize, &'static str)> {
        // state of the type after each op
        #[derive(Clone, Copy, PartialEq, Debug)]
        enum T {
            Empty,
            Map,
            Fil,
            MapFil,
            FMap,     // ParFilterMap
            FMapFil,  // ParFilterMapFilter
            Flat,
            FlatFil,
        }
        let mut t = if self.src.has_adaptor() { T::Map } else { T::Empty };
        let mut out = vec![];
        for (i, op) in self.ops.iter().enumerate() {
            let (nt, eager) = match (t, op) {
                (T::Empty, Op::Map { .. }) => (T::Map, false),
                (T::Empty, Op::Filter { .. }) => (T::Fil, false),
                (T::Empty, Op::FlatMap { .. }) => (T::Flat, false),
                (T::Empty, Op::FilterMap { .. }) => (T::FMap, false),
                (T::Map, Op::Map { .. }) => (T::Map, false),
                (T::Map, Op::Filter { .. }) => (T::MapFil, false),
                (T::Map, Op::FlatMap { .. }) => (T::Flat, false),
                (T::Map, Op::FilterMap { .. }) => (T::FMap, false),
                (T::Fil, Op::Map { .. }) => (T::FMap, false),
                (T::Fil, Op::Filter { .. }) => (T::Fil, false),
                (T::Fil, Op::FlatMap { .. }) => (T::Flat, true),
                (T::Fil, Op::FilterMap { .. }) => (T::FMap, false),
                (T::MapFil, Op::Map { .. }) => (T::FMap, false),
                (T::MapFil, Op::Filter { .. }) => (T::MapFil, false),
                (T::MapFil, Op::FlatMap { .. }) => (T::Flat, true),
                (T::MapFil, Op::FilterMap { .. }) => (T::FMap, false),
                (T::FMap, Op::Map { .. }) => (T::FMap, false),
                (T::FMap, Op::Filter { .. }) => (T::FMapFil, false),
                (T::FMap, Op::FlatMap { .. }) => (T::Flat, true),
                (T::FMap, Op::FilterMap { .. }) => (T::FMap, false),
                (T::FMapFil, Op::Map { .. }) => (T::FMap, false),
                (T::FMapFil, Op::Filter { .. }) => (T::FMapFil, false),
                (T::FMapFil, Op::FlatMap { .. }) => (T::Flat, true),
                (T::FMapFil, Op::FilterMap { .. }) => (T::FMap, false),
                (T::Flat, Op::Map { .. }) => (T::Flat, false),
                (T::Flat, Op::Filter { .. }) => (T::FlatFil, false),
                (T::Flat, Op::FlatMap { .. }) => (T::Flat, false),
                (T::Flat, Op::FilterMap { .. }) => (T::FMap, true),
                (T::FlatFil, Op::Map { .. }) => (T::Map, true),
                (T::FlatFil, Op::Filter { .. }) => (T::FlatFil, false),
                (T::FlatFil, Op::FlatMap { .. }) => (T::Flat, true),
                (T::FlatFil, Op::FilterMap { .. }) => (T::FMap, true),
            };
            if eager {
                let name = match (t, op) {
                    (T::Fil, _) => "ParFilter::flat_map",
                    (T::MapFil, _) => "ParMapFilter::flat_map",
                    (T::FMap, _) => "ParFilterMap::flat_map",
                    (T::FMapFil, _) => "ParFilterMapFilter::flat_map",
                    (T::Flat, _) => "ParFlatMap::filter_map",
                    (T::FlatFil, Op::Map { .. }) => "ParFlatMapFilter::map",
                    (T::FlatFil, Op::FlatMap { .. }) => "ParFlatMapFilter::flat_map",
                    (T::FlatFil, _) => "ParFlatMapFilter::filter_map",
                    _ => "?",
                };
                out.push((i, name));
            }
            t = nt;
        }
        out
    }
}

/// large inputs are written as `#len:seed`
pub fn spec_vals(n: usize, seed: u64) -> Vec<i64> {
    (0..n).map(|i| (mix(seed, i as u64, 0x7A15) % 13) as i64 - 4).collect()
}

fn compact_vals(vals: &[i64]) -> Option<String> {
    if vals.len() < 400 {
        return None;
    }
    // the seed is recoverable from the first elements only by search; large inputs are always generated with
    // a seed below 64
    (0..64u64).find(|sd| spec_vals(vals.len(), *sd) == vals).map(|sd| format!("#{}:{}", vals.len(), sd))
}

// ---------------------------------------------------------------------------------------------
// text encoding (one line; used in replay files and on the command line)

fn enc_pred(p: &Pred) -> String {
    match p {
        Pred::Hash { m, t, salt } => format!("h:{}:{}:{}", m, t, salt),
        Pred::Ids(v) => format!("i:{}", v.iter().map(|x| x.to_string()).collect::<Vec<_>>().join(",")),
    }
}
fn dec_pred(s: &str) -> Option<Pred> {
    let (k, rest) = s.split_once(':')?;
    match k {
        "h" => {
            let v: Vec<u64> = rest.split(':').map(|x| x.parse().ok()).collect::<Option<_>>()?;
            Some(Pred::Hash { m: v[0], t: v[1], salt: v[2] })
        }
        "i" => {
            if rest.is_empty() {
                return Some(Pred::Ids(vec![]));
            }
            let mut v: Vec<u64> = rest.split(',').map(|x| x.parse().ok()).collect::<Option<_>>()?;
            v.sort();
            Some(Pred::Ids(v))
        }
        _ => None,
    }
}
fn enc_red(r: RedOp) -> &'static str {
    match r {
        RedOp::Add => "add",
        RedOp::Xor => "xor",
        RedOp::MinVal => "minval",
        RedOp::MaxVal => "maxval",
    }
}
fn dec_red(s: &str) -> Option<RedOp> {
    Some(match s {
        "add" => RedOp::Add,
        "xor" => RedOp::Xor,
        "minval" => RedOp::MinVal,
        "maxval" => RedOp::MaxVal,
        _ => return None,
    })
}

impl Term {
    pub fn encode(&self) -> String {
        match self {
            Term::CollectInto(t) => format!(
                "collect_into/{}:{}:{}",
                match t.kind {
                    TargetKind::Vec => "vec",
                    TargetKind::SplitDoubling => "splitd",
                    TargetKind::SplitLinear => "splitl",
                    TargetKind::Fixed => "fixed",
                    TargetKind::SplitNew => "splitnew",
                    TargetKind::SplitLinearSmall => "splitlsmall",
                },
                t.prefix,
                t.spare
            ),
            Term::Reduce(r) => format!("reduce/{}", enc_red(*r)),
            Term::Fold(r) => format!("fold/{}", enc_red(*r)),
            Term::MinBy(k) => format!("min_by/{}", k),
            Term::MaxBy(k) => format!("max_by/{}", k),
            Term::MinByKey(k) => format!("min_by_key/{}", k),
            Term::MaxByKey(k) => format!("max_by_key/{}", k),
            Term::Find(p) => format!("find/{}", enc_pred(p)),
            Term::Any(p) => format!("any/{}", enc_pred(p)),
            Term::All(p) => format!("all/{}", enc_pred(p)),
            Term::FindWithIndex(p) => format!("find_with_index/{}", enc_pred(p)),
            t => t.name().to_string(),
        }
    }
    pub fn decode(s: &str) -> Option<Term> {
        let (name, arg) = match s.split_once('/') {
            Some((a, b)) => (a, b),
            None => (s, ""),
        };
        Some(match name {
            "collect_vec" => Term::CollectVec,
            "collect" => Term::Collect,
            "collect_x" => Term::CollectX,
            "collect_x_unit" => Term::CollectXUnit,
            "count" => Term::Count,
            "for_each" => Term::ForEach,
            "sum" => Term::Sum,
            "min" => Term::Min,
            "max" => Term::Max,
            "first" => Term::First,
            "first_with_index" => Term::FirstWithIndex,
            "collect_into" => {
                let v: Vec<&str> = arg.split(':').collect();
                Term::CollectInto(Target {
                    kind: match v[0] {
                        "vec" => TargetKind::Vec,
                        "splitd" => TargetKind::SplitDoubling,
                        "splitl" => TargetKind::SplitLinear,
                        "fixed" => TargetKind::Fixed,
                        "splitnew" => TargetKind::SplitNew,
                        "splitlsmall" => TargetKind::SplitLinearSmall,
                        _ => return None,
                    },
                    prefix: v.get(1)?.parse().ok()?,
                    spare: v.get(2)?.parse().ok()?,
                })
            }
            "reduce" => Term::Reduce(dec_red(arg)?),
            "fold" => Term::Fold(dec_red(arg)?),
            "min_by" => Term::MinBy(arg.parse().ok()?),
            "max_by" => Term::MaxBy(arg.parse().ok()?),
            "min_by_key" => Term::MinByKey(arg.parse().ok()?),
            "max_by_key" => Term::MaxByKey(arg.parse().ok()?),
            "find" => Term::Find(dec_pred(arg)?),
            "any" => Term::Any(dec_pred(arg)?),
            "all" => Term::All(dec_pred(arg)?),
            "find_with_index" => Term::FindWithIndex(dec_pred(arg)?),
            _ => return None,
        })
    }
}

fn enc_op(o: &Op) -> String {
    match o {
        Op::Map { mul, add } => format!("map:{}:{}", mul, add),
        Op::Filter { m, t, salt } => format!("fil:{}:{}:{}", m, t, salt),
        Op::FlatMap { salt, maxk, lazy } => format!("flat:{}:{}:{}", salt, maxk, *lazy as u8),
        Op::FilterMap { m, t, salt, add, res } => format!("fmap:{}:{}:{}:{}:{}", m, t, salt, add, *res as u8),
    }
}
fn dec_op(s: &str) -> Option<Op> {
    let v: Vec<&str> = s.split(':').collect();
    Some(match v[0] {
        "map" => Op::Map { mul: v.get(1)?.parse().ok()?, add: v.get(2)?.parse().ok()? },
        "fil" => Op::Filter { m: v.get(1)?.parse().ok()?, t: v.get(2)?.parse().ok()?, salt: v.get(3)?.parse().ok()? },
        "flat" => Op::FlatMap {
            salt: v.get(1)?.parse().ok()?,
            maxk: v.get(2)?.parse().ok()?,
            lazy: *v.get(3)? == "1",
        },
        "fmap" => Op::FilterMap {
            m: v.get(1)?.parse().ok()?,
            t: v.get(2)?.parse().ok()?,
            salt: v.get(3)?.parse().ok()?,
            add: v.get(4)?.parse().ok()?,
            res: *v.get(5)? == "1",
        },
        _ => return None,
    })
}
fn enc_chunk(c: Chunk) -> String {
    match c {
        Chunk::Raw(n) => format!("raw{}", n),
        Chunk::Exact(n) => format!("exact{}", n),
        Chunk::Min(n) => format!("min{}", n),
        Chunk::Auto => "auto".into(),
    }
}
fn dec_chunk(s: &str) -> Option<Chunk> {
    if s == "auto" {
        return Some(Chunk::Auto);
    }
    if let Some(x) = s.strip_prefix("raw") {
        return Some(Chunk::Raw(x.parse().ok()?));
    }
    if let Some(x) = s.strip_prefix("exact") {
        return Some(Chunk::Exact(x.parse().ok()?));
    }
    if let Some(x) = s.strip_prefix("min") {
        return Some(Chunk::Min(x.parse().ok()?));
    }
    None
}

impl Scenario {
    pub fn encode(&self) -> String {
        let mut parts = vec![];
        parts.push(format!("seed={}", self.seed));
        parts.push(format!("src={}", self.src.name()));
        match compact_vals(&self.vals) {
            Some(c) => parts.push(format!("vals={}", c)),
            None => parts.push(format!("vals={}", self.vals.iter().map(|x| x.to_string()).collect::<Vec<_>>().join(","))),
        }
        parts.push(format!("ops={}", self.ops.iter().map(enc_op).collect::<Vec<_>>().join("|")));
        parts.push(format!(
            "nt={}",
            self.nt.iter().map(|(p, n)| format!("{}@{}", n, p)).collect::<Vec<_>>().join(",")
        ));
        parts.push(format!(
            "cs={}",
            self.cs.iter().map(|(p, c)| format!("{}@{}", enc_chunk(*c), p)).collect::<Vec<_>>().join(",")
        ));
        parts.push(format!("term={}", self.term.encode()));
        parts.push(format!("policy={}", self.policy.encode()));
        parts.push(format!("noise={}", self.noise));
        parts.push(format!("avail={}", self.avail));
        parts.push(format!("sched={}", self.sched_seed));
        parts.push(format!("release={}", self.starve_release));
        parts.push(format!("quiet={}", self.quiet));
        if self.pre > 0 {
            parts.push(format!("pre={}", self.pre));
        }
        parts.push(format!(
            "faults={}",
            self.faults
                .iter()
                .map(|f| match f.trigger {
                    Trigger::Arg(a) => format!("{}:a{}", f.stage, a),
                    Trigger::Nth(k) => format!("{}:n{}", f.stage, k),
                })
                .collect::<Vec<_>>()
                .join(",")
        ));
        parts.join(";")
    }

    pub fn decode(s: &str) -> Option<Scenario> {
        let mut scn = Scenario {
            seed: 0,
            src: Src::Vec,
            vals: vec![],
            ops: vec![],
            nt: vec![],
            cs: vec![],
            term: Term::Count,
            policy: Policy::Uniform,
            noise: 0,
            avail: 16,
            sched_seed: 0,
            faults: vec![],
            starve_release: 0,
            quiet: 0,
            pre: 0,
        };
        for part in s.trim().split(';') {
            let (k, v) = part.split_once('=')?;
            match k {
                "seed" => scn.seed = v.parse().ok()?,
                "src" => scn.src = Src::parse(v)?,
                "vals" => {
                    scn.vals = if let Some(spec) = v.strip_prefix('#') {
                        let (n, sd) = spec.split_once(':')?;
                        spec_vals(n.parse().ok()?, sd.parse().ok()?)
                    } else if v.is_empty() {
                        vec![]
                    } else {
                        v.split(',').map(|x| x.parse().ok()).collect::<Option<_>>()?
                    }
                }
                "ops" => {
                    scn.ops = if v.is_empty() {
                        vec![]
                    } else {
                        v.split('|').map(dec_op).collect::<Option<_>>()?
                    }
                }
                "nt" => {
                    for x in v.split(',').filter(|x| !x.is_empty()) {
                        let (n, p) = x.split_once('@')?;
                        scn.nt.push((p.parse().ok()?, n.parse().ok()?));
                    }
                }
                "cs" => {
                    for x in v.split(',').filter(|x| !x.is_empty()) {
                        let (c, p) = x.split_once('@')?;
                        scn.cs.push((p.parse().ok()?, dec_chunk(c)?));
                    }
                }
                "term" => scn.term = Term::decode(v)?,
                "policy" => scn.policy = Policy::decode(v)?,
                "noise" => scn.noise = v.parse().ok()?,
                "avail" => scn.avail = v.parse().ok()?,
                "sched" => scn.sched_seed = v.parse().ok()?,
                "release" => scn.starve_release = v.parse().ok()?,
                "quiet" => scn.quiet = v.parse().ok()?,
                "pre" => scn.pre = v.parse().ok()?,
                "faults" => {
                    for x in v.split(',').filter(|x| !x.is_empty()) {
                        let (st, tr) = x.split_once(':')?;
                        let trigger = if let Some(a) = tr.strip_prefix('a') {
                            Trigger::Arg(a.parse().ok()?)
                        } else {
                            Trigger::Nth(tr.strip_prefix('n')?.parse().ok()?)
                        };
                        scn.faults.push(Fault { stage: st.parse().ok()?, trigger });
                    }
                }
                _ => return None,
            }
        }
        Some(scn)
    }
}
